// ===== L2 ghost World and event contracts (DESIGN.md Appendix A). One World value per skeleton invocation. =====
#[derive(PartialEq, Eq, Structural, Clone, Copy)]
pub enum Role { LOCKFILE, STAGING_DIR, CAS_DIR, DB_DIR, QUARANTINE_DIR, CAS_SUBDIR, DIR_OF_BLOB,
    STAGING, BLOB, QUARANTINE, WALSEG, OLDSEG, SNAP_TMP, SNAP, TMP, TMP_FILE, TARGET, SETTINGS, INVALID_OR_STAGING_LEFTOVER, UNKNOWN }

pub enum F { Intents, StateW, StateR, Wal, CsApplied, CsFiltered, CsOrphanOk, SyncMode, StagingFlushed, StagingSynced, BlobAtFinal, IntentRegistered, GuardAlive, WalWritten, WalFlushed, WalDurable, Applied, TmpWritten, TmpSynced, TargetRenamed, SnapSaved, NewsegCreated, NewsegSynced, Deleted, ToDeleteNonempty, OwnsDirlock, StoredExists, SettingsMatch, WantPrecreate, DirsPrecreated, Looked, RenameTried, SegExists, MustRollover, IntentConsumed, CsIndexChecked, InReadApi, CbArg, BlobTouched }
/// the World is the set of flags that are currently true (see DESIGN.md Appendix A for their meaning)
pub struct World { pub s: Set<F> }
impl World {
    pub open spec fn has(self, f: F) -> bool { self.s.contains(f) }
    pub open spec fn set(self, f: F, v: bool) -> World { World { s: if v { self.s.insert(f) } else { self.s.remove(f) } } }
}
/// observer flags record that something happened (a blob file was accessed); they are not part of the protocol state
pub open spec fn is_observer(f: F) -> bool { f == F::BlobTouched }
pub open spec fn same(a: World, b: World) -> bool { forall|f: F| #![trigger a.s.contains(f)] #![trigger b.s.contains(f)] !is_observer(f) ==> a.s.contains(f) == b.s.contains(f) }
pub open spec fn frame(a: World, b: World, fs: Set<F>) -> bool { forall|f: F| #![trigger a.s.contains(f)] #![trigger b.s.contains(f)] !fs.contains(f) && !is_observer(f) ==> (a.s.contains(f) == b.s.contains(f)) }
#[verifier::external_body] pub fn nondet() -> bool { unimplemented!() }

/// no lock held (and therefore no critical-section-scoped fact alive)
pub open spec fn no_locks(w: World) -> bool { !w.has(F::Intents) && !w.has(F::StateW) && !w.has(F::StateR) && !w.has(F::Wal) && !w.has(F::CsApplied) && !w.has(F::CsFiltered) && !w.has(F::CsOrphanOk) && !w.has(F::CsIndexChecked) }
pub open spec fn same_locks(a: World, b: World) -> bool { a.has(F::Intents) == b.has(F::Intents) && a.has(F::StateW) == b.has(F::StateW) && a.has(F::StateR) == b.has(F::StateR) && a.has(F::Wal) == b.has(F::Wal) }
pub open spec fn is_dir_role(r: Role) -> bool { r == Role::STAGING_DIR || r == Role::CAS_DIR || r == Role::DB_DIR || r == Role::QUARANTINE_DIR || r == Role::CAS_SUBDIR || r == Role::DIR_OF_BLOB }

// ---------------- locks ----------------
#[verifier::external_body] pub fn acq_intents(w: &mut World)
    requires /*lock_level*/ no_locks(*old(w)),
    ensures *final(w) == (old(w).set(F::Intents, true)) { unimplemented!() }
#[verifier::external_body] pub fn rel_intents(w: &mut World)
    requires old(w).has(F::Intents),
    ensures *final(w) == (old(w).set(F::Intents, false).set(F::CsApplied, false).set(F::CsFiltered, false).set(F::CsOrphanOk, false).set(F::CsIndexChecked, false)) { unimplemented!() }
#[verifier::external_body] pub fn acq_state_w(w: &mut World)
    requires /*lock_level*/ !old(w).has(F::StateW) && !old(w).has(F::StateR) && !old(w).has(F::Wal),
    ensures *final(w) == (old(w).set(F::StateW, true)) { unimplemented!() }
#[verifier::external_body] pub fn rel_state_w(w: &mut World)
    requires old(w).has(F::StateW),
    ensures *final(w) == (old(w).set(F::StateW, false)) { unimplemented!() }
#[verifier::external_body] pub fn acq_state_r(w: &mut World)
    requires /*lock_level*/ !old(w).has(F::StateW) && !old(w).has(F::StateR) && !old(w).has(F::Wal),
    ensures *final(w) == (old(w).set(F::StateR, true)) { unimplemented!() }
#[verifier::external_body] pub fn rel_state_r(w: &mut World)
    requires old(w).has(F::StateR),
    ensures *final(w) == (old(w).set(F::StateR, false)) { unimplemented!() }
#[verifier::external_body] pub fn acq_wal(w: &mut World)
    requires /*lock_level*/ !old(w).has(F::Wal),
    ensures *final(w) == (old(w).set(F::Wal, true)) { unimplemented!() }
#[verifier::external_body] pub fn rel_wal(w: &mut World)
    requires old(w).has(F::Wal),
    ensures *final(w) == (old(w).set(F::Wal, false)) { unimplemented!() }

// ---------------- protocol markers ----------------
#[verifier::external_body] pub fn ev_intent_insert(w: &mut World)
    requires old(w).has(F::Intents),
    ensures *final(w) == (old(w).set(F::IntentRegistered, true).set(F::GuardAlive, true)) { unimplemented!() }
#[verifier::external_body] pub fn ev_intent_remove_own(w: &mut World)
    requires old(w).has(F::Intents),
    ensures *final(w) == *old(w) { unimplemented!() }
/// apply_put_op consuming the key's registration: the registration protects the new blob until the index references it,
/// so it may be consumed only after the index mutation of this critical section (an error exit before that leaves it to
/// IntentGuard::drop, which restores what it displaced)
#[verifier::external_body] pub fn ev_intent_consume(w: &mut World)
    requires old(w).has(F::Intents), /*intent_consumed_only_after_apply*/ old(w).has(F::CsApplied),
    ensures *final(w) == old(w).set(F::IntentConsumed, true) { unimplemented!() }
/// any other mutation of the pending-intent map (retain / clear / drain / extend / entry / an insert that is neither the
/// registration nor the restore): not part of the protocol
#[verifier::external_body] pub fn ev_unexplained_intent_mutation(w: &mut World)
    requires /*intent_map_mutated_only_by_protocol*/ false,
    ensures *final(w) == *old(w) { unimplemented!() }
/// `state.contains_blob_hash(h)` on the live index
#[verifier::external_body] pub fn ev_index_membership_check(w: &mut World)
    requires old(w).has(F::StateR) || old(w).has(F::StateW),
    ensures *final(w) == old(w).set(F::CsIndexChecked, old(w).has(F::Intents)) { unimplemented!() }
/// `list.retain(|h| !intents.values().any(|i| i == h))`: only meaningful after the index mutation, in the same critical section
#[verifier::external_body] pub fn ev_filter_by_intents(w: &mut World)
    requires old(w).has(F::Intents), old(w).has(F::CsApplied),
    ensures *final(w) == (old(w).set(F::CsFiltered, true)) { unimplemented!() }
/// the blob-deletion callback (bound to CasManager::delete_blobs at every creation site)
#[verifier::external_body] pub fn cb_delete_fn(w: &mut World) -> (ok: bool)
    requires
        /*delete_under_intents_only*/ old(w).has(F::Intents) && !old(w).has(F::StateW) && !old(w).has(F::StateR) && !old(w).has(F::Wal),
        /*delete_requires_filtered_in_same_cs*/ old(w).has(F::CsFiltered) && old(w).has(F::CsApplied),
        /*delete_requires_durable_record*/ old(w).has(F::WalDurable),
        old(w).has(F::OwnsDirlock),
    ensures *final(w) == (old(w).set(F::Deleted, true)) { unimplemented!() }
/// replay callback: takes the state write lock for one apply
#[verifier::external_body] pub fn cb_apply_op_fn(w: &mut World) -> (ok: bool)
    requires !old(w).has(F::StateW) && !old(w).has(F::StateR) && !old(w).has(F::Wal),
    ensures *final(w) == *old(w) { unimplemented!() }
/// the blob-reading closure handed to with_blob_item: it opens/reads cas/<hash>; the entry it was given must still be
/// protected from a concurrent overwrite+unlink, i.e. the index read guard must still be held (C05)
#[verifier::external_body] pub fn cb_blob_reader(w: &mut World) -> (ok: bool)
    requires /*blob_read_under_index_guard*/ old(w).has(F::StateR),
    ensures *final(w) == *old(w) { unimplemented!() }

// ---------------- filesystem primitives ----------------
#[verifier::external_body] pub fn ev_create_dir_all(w: &mut World, r: Role) -> (ok: bool)
    requires /*mutation_requires_dirlock*/ is_dir_role(r) && (old(w).has(F::OwnsDirlock) || r == Role::STAGING_DIR || r == Role::CAS_DIR),
    ensures *final(w) == *old(w) { unimplemented!() }
#[verifier::external_body] pub fn ev_open_create_trunc(w: &mut World, r: Role) -> (ok: bool)
    requires /*no_in_place_overwrite*/ r == Role::LOCKFILE || ((r == Role::TMP || r == Role::SNAP_TMP) && old(w).has(F::OwnsDirlock)),
    ensures *final(w) == (if r == Role::LOCKFILE { *old(w) } else { old(w).set(F::TmpWritten, false).set(F::TmpSynced, false).set(F::TargetRenamed, false) }) { unimplemented!() }
#[verifier::external_body] pub fn ev_open_append_create(w: &mut World, r: Role) -> (ok: bool)
    requires r == Role::WALSEG, old(w).has(F::OwnsDirlock),
    ensures *final(w) == *old(w) { unimplemented!() }
#[verifier::external_body] pub fn ev_open_read(w: &mut World, r: Role) -> (ok: bool)
    requires /*blob_access_in_read_api_under_index_guard*/ r == Role::BLOB ==> (old(w).has(F::StateR) || !old(w).has(F::InReadApi) || old(w).has(F::CbArg)),
    ensures *final(w) == (if r == Role::BLOB { old(w).set(F::BlobTouched, true) } else { *old(w) }) { unimplemented!() }
#[verifier::external_body] pub fn ev_open_other(w: &mut World, r: Role) -> (ok: bool)
    requires /*unexplained_open_mode*/ false,
    ensures *final(w) == *old(w) { unimplemented!() }
#[verifier::external_body] pub fn ev_file_create(w: &mut World, r: Role) -> (ok: bool)
    requires
        /*file_create_only_new_segment*/ r == Role::WALSEG && old(w).has(F::OwnsDirlock),
        /*never_truncate_existing_segment*/ !old(w).has(F::SegExists),
    ensures *final(w) == (old(w).set(F::NewsegCreated, true).set(F::NewsegSynced, false)) { unimplemented!() }
#[verifier::external_body] pub fn ev_file_open(w: &mut World, r: Role) -> (ok: bool)
    requires /*blob_access_in_read_api_under_index_guard*/ r == Role::BLOB ==> (old(w).has(F::StateR) || !old(w).has(F::InReadApi) || old(w).has(F::CbArg)),
    ensures *final(w) == (if r == Role::BLOB { old(w).set(F::BlobTouched, true) } else { *old(w) }) { unimplemented!() }
#[verifier::external_body] pub fn ev_fs_read(w: &mut World, r: Role) -> (ok: bool)
    requires /*blob_access_in_read_api_under_index_guard*/ r == Role::BLOB ==> (old(w).has(F::StateR) || !old(w).has(F::InReadApi) || old(w).has(F::CbArg)),
    ensures *final(w) == (if r == Role::BLOB { old(w).set(F::BlobTouched, true) } else { *old(w) }) { unimplemented!() }
#[verifier::external_body] pub fn ev_fs_stat(w: &mut World, r: Role) -> (ok: bool)
    requires /*blob_access_in_read_api_under_index_guard*/ r == Role::BLOB ==> (old(w).has(F::StateR) || !old(w).has(F::InReadApi) || old(w).has(F::CbArg)),
    ensures *final(w) == (if r == Role::BLOB { old(w).set(F::BlobTouched, true) } else { *old(w) }) { unimplemented!() }
#[verifier::external_body] pub fn ev_fs_read_dir(w: &mut World, r: Role) -> (ok: bool)
    ensures *final(w) == *old(w) { unimplemented!() }
#[verifier::external_body] pub fn ev_read_at(w: &mut World, r: Role) -> (ok: bool)
    requires /*blob_access_in_read_api_under_index_guard*/ r == Role::BLOB ==> (old(w).has(F::StateR) || !old(w).has(F::InReadApi) || old(w).has(F::CbArg)),
    ensures *final(w) == (if r == Role::BLOB { old(w).set(F::BlobTouched, true) } else { *old(w) }) { unimplemented!() }
#[verifier::external_body] pub fn ev_tempfile_new_in(w: &mut World, r: Role) -> (ok: bool)
    requires /*staging_files_only_in_staging_dir*/ r == Role::STAGING_DIR,
    ensures *final(w) == *old(w) { unimplemented!() }
/// `temp.keep()` / `persist(..)` / `into_parts()`: the staging file would survive an abort
#[verifier::external_body] pub fn ev_tempfile_detached(w: &mut World)
    requires /*staging_file_delete_on_drop_never_disabled*/ false,
    ensures *final(w) == *old(w) { unimplemented!() }
/// `return Err(..)` in open / load / replay that is not explained by a failed callee or a tracked condition
#[verifier::external_body] pub fn ev_unexplained_refusal(w: &mut World)
    requires /*open_refused_only_for_documented_reasons*/ false,
    ensures *final(w) == *old(w) { unimplemented!() }
/// a second descriptor for the LOCK file (try_clone / raw fd): the flock then outlives the store
#[verifier::external_body] pub fn ev_lock_handle_duplicated(w: &mut World)
    requires /*dirlock_descriptor_never_duplicated*/ false,
    ensures *final(w) == *old(w) { unimplemented!() }
/// Condvar::wait / blocking recv / park in an API path
#[verifier::external_body] pub fn ev_blocking_wait(w: &mut World)
    requires /*no_unbounded_wait_in_api_paths*/ false,
    ensures *final(w) == *old(w) { unimplemented!() }
/// `mem::forget(x)` / `ManuallyDrop::new(x)`: the value's destructor (unlock, staging-file removal, intent revert) never runs
#[verifier::external_body] pub fn ev_forget_value(w: &mut World)
    requires /*destructors_always_run*/ false,
    ensures *final(w) == *old(w) { unimplemented!() }
#[verifier::external_body] pub fn ev_reopen(w: &mut World, r: Role) -> (ok: bool)
    ensures *final(w) == *old(w) { unimplemented!() }
#[verifier::external_body] pub fn ev_write_all(w: &mut World, r: Role) -> (ok: bool)
    requires /*blobs_never_written_in_place*/ r == Role::TMP_FILE || r == Role::STAGING || r == Role::WALSEG,
    ensures
        r == Role::TMP_FILE ==> *final(w) == (old(w).set(F::TmpWritten, ok).set(F::TmpSynced, false)),
        r == Role::STAGING ==> *final(w) == (old(w).set(F::StagingFlushed, false).set(F::StagingSynced, false)),
        r == Role::WALSEG ==> *final(w) == (old(w).set(F::WalWritten, ok).set(F::WalFlushed, false).set(F::WalDurable, false)) { unimplemented!() }
#[verifier::external_body] pub fn ev_flush(w: &mut World, r: Role) -> (ok: bool)
    ensures
        r == Role::STAGING ==> *final(w) == (old(w).set(F::StagingFlushed, ok)),
        r == Role::WALSEG ==> *final(w) == (old(w).set(F::WalFlushed, ok && old(w).has(F::WalWritten))),
        r != Role::STAGING && r != Role::WALSEG ==> *final(w) == *old(w) { unimplemented!() }
#[verifier::external_body] pub fn ev_into_inner(w: &mut World, r: Role) -> (ok: bool)
    ensures
        r == Role::STAGING ==> *final(w) == (old(w).set(F::StagingFlushed, ok)),
        r == Role::WALSEG ==> *final(w) == (old(w).set(F::WalFlushed, ok && old(w).has(F::WalWritten))),
        r != Role::STAGING && r != Role::WALSEG ==> *final(w) == *old(w) { unimplemented!() }
#[verifier::external_body] pub fn ev_sync_data(w: &mut World, r: Role) -> (ok: bool)
    ensures
        r == Role::TMP_FILE ==> *final(w) == (old(w).set(F::TmpSynced, ok && old(w).has(F::TmpWritten))),
        r == Role::STAGING ==> *final(w) == (old(w).set(F::StagingSynced, ok && old(w).has(F::StagingFlushed))),
        r == Role::WALSEG ==> *final(w) == (old(w).set(F::WalDurable, ok && old(w).has(F::WalFlushed)).set(F::NewsegSynced, ok && old(w).has(F::NewsegCreated))),
        r != Role::TMP_FILE && r != Role::STAGING && r != Role::WALSEG ==> *final(w) == *old(w) { unimplemented!() }
#[verifier::external_body] pub fn ev_sync_all(w: &mut World, r: Role) -> (ok: bool)
    ensures
        r == Role::TMP_FILE ==> *final(w) == (old(w).set(F::TmpSynced, ok && old(w).has(F::TmpWritten))),
        r == Role::STAGING ==> *final(w) == (old(w).set(F::StagingSynced, ok && old(w).has(F::StagingFlushed))),
        r == Role::WALSEG ==> *final(w) == (old(w).set(F::WalDurable, ok && old(w).has(F::WalFlushed)).set(F::NewsegSynced, ok && old(w).has(F::NewsegCreated))),
        r != Role::TMP_FILE && r != Role::STAGING && r != Role::WALSEG ==> *final(w) == *old(w) { unimplemented!() }
#[verifier::external_body] pub fn ev_rename(w: &mut World, src: Role, dst: Role) -> (ok: bool)
    requires
        /*rename_pairs_closed*/ (src == Role::STAGING && dst == Role::BLOB) || (src == Role::TMP && dst == Role::TARGET) || (src == Role::BLOB && dst == Role::QUARANTINE),
        /*publish_requires_complete_staging*/ src == Role::STAGING ==> old(w).has(F::StagingFlushed),
        /*publish_requires_synced_staging*/ src == Role::STAGING && old(w).has(F::SyncMode) ==> old(w).has(F::StagingSynced),
        /*publish_requires_live_intent*/ src == Role::STAGING ==> old(w).has(F::IntentRegistered) && old(w).has(F::GuardAlive),
        /*atomic_replace_requires_written_synced_temp*/ src == Role::TMP ==> old(w).has(F::TmpWritten) && old(w).has(F::TmpSynced) && old(w).has(F::OwnsDirlock),
        /*quarantine_requires_revalidation*/ src == Role::BLOB ==> old(w).has(F::Intents) && old(w).has(F::CsOrphanOk),
    ensures
        src == Role::STAGING ==> *final(w) == (old(w).set(F::BlobAtFinal, ok || old(w).has(F::BlobAtFinal)).set(F::RenameTried, true)),
        src == Role::TMP ==> *final(w) == (old(w).set(F::TargetRenamed, ok)),
        src == Role::BLOB ==> *final(w) == *old(w) { unimplemented!() }
#[verifier::external_body] pub fn ev_remove_file(w: &mut World, r: Role) -> (ok: bool)
    requires
        /*remove_roles_closed*/ r == Role::BLOB || r == Role::STAGING || r == Role::OLDSEG || r == Role::INVALID_OR_STAGING_LEFTOVER,
        /*blob_unlink_requires_protocol*/ r == Role::BLOB ==> old(w).has(F::Intents) && ((old(w).has(F::CsFiltered) && old(w).has(F::CsApplied) && old(w).has(F::WalDurable)) || old(w).has(F::CsOrphanOk)),
        /*segment_unlink_requires_saved_snapshot*/ r == Role::OLDSEG ==> old(w).has(F::SnapSaved),
        /*staged_copy_dropped_only_after_failed_rename*/ r == Role::STAGING ==> old(w).has(F::RenameTried),
        /*mutation_requires_dirlock*/ old(w).has(F::OwnsDirlock),
    ensures *final(w) == (if r == Role::STAGING { old(w).set(F::BlobAtFinal, ok || old(w).has(F::BlobAtFinal)) } else { *old(w) }) { unimplemented!() }
#[verifier::external_body] pub fn ev_try_lock(w: &mut World, r: Role) -> (ok: bool)
    requires r == Role::LOCKFILE,
    ensures *final(w) == (old(w).set(F::OwnsDirlock, ok || old(w).has(F::OwnsDirlock))) { unimplemented!() }
#[verifier::external_body] pub fn ev_channel_send(w: &mut World, r: Role) -> (ok: bool)
    ensures *final(w) == *old(w) { unimplemented!() }
#[verifier::external_body] pub fn ev_unexplained_fs(w: &mut World)
    requires /*unexplained_filesystem_effect*/ false,
    ensures *final(w) == *old(w) { unimplemented!() }
/// orphan clean-up re-validation marker (the `still_referenced || has_intent` test did not take the skip branch)
#[verifier::external_body] pub fn ev_revalidate_orphan(w: &mut World)
    requires old(w).has(F::Intents), /*revalidation_reads_live_index_in_same_cs*/ old(w).has(F::CsIndexChecked),
    ensures *final(w) == (old(w).set(F::CsOrphanOk, true)) { unimplemented!() }

/// `state.apply_logical_op(op)` on the live index: only under the state write lock, after the record is durable
#[verifier::external_body] pub fn ev_index_apply(w: &mut World)
    requires
        /*apply_under_state_write_lock*/ old(w).has(F::StateW),
        /*log_before_apply*/ old(w).has(F::WalDurable),
    ensures *final(w) == (old(w).set(F::Applied, true).set(F::CsApplied, old(w).has(F::Intents))) { unimplemented!() }
/// successful exit of IndexStatePersister::save
#[verifier::external_body] pub fn ev_snap_saved(w: &mut World)
    requires /*snapshot_saved_means_renamed*/ old(w).has(F::TargetRenamed),
    ensures *final(w) == (old(w).set(F::SnapSaved, true)) { unimplemented!() }
/// successful exit of pre_create_all_cas_directories
#[verifier::external_body] pub fn ev_dirs_precreated(w: &mut World)
    ensures *final(w) == (old(w).set(F::DirsPrecreated, true)) { unimplemented!() }
/// bookkeeping around the body of a closure that is passed as an argument (it runs inside the callee, as its callback)
#[verifier::external_body] pub fn set_cbarg(w: &mut World, v: bool)
    ensures *final(w) == old(w).set(F::CbArg, v) { unimplemented!() }
/// exec read of a (constant) World flag, for tracked conditions
#[verifier::external_body] pub fn rd(w: &World, f: F) -> (b: bool)
    ensures b == w.has(f) { unimplemented!() }

/// IntentGuard::drop restoring the intent it had replaced (another transaction's registration)
#[verifier::external_body] pub fn ev_intent_restore(w: &mut World)
    requires old(w).has(F::Intents),
    ensures *final(w) == *old(w) { unimplemented!() }
/// end of IntentGuard::drop: this transaction's guard is gone (and with it its registration, unless committed)
#[verifier::external_body] pub fn ev_guard_dropped(w: &mut World)
    ensures *final(w) == old(w).set(F::GuardAlive, false).set(F::IntentRegistered, false) { unimplemented!() }

/// the index lookup of a public read operation: one consistent snapshot (hash and size from the same entry) per call
#[verifier::external_body] pub fn ev_index_lookup(w: &mut World)
    requires
        /*lookup_under_index_guard*/ old(w).has(F::StateR),
        /*single_index_snapshot_per_read*/ !old(w).has(F::Looked),
    ensures *final(w) == old(w).set(F::Looked, true) { unimplemented!() }
