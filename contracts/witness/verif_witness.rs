//! Witness search (NOT a deciding step): after Verus refutes an obligation, these tests look for a concrete
//! failing input on the REAL crate. The file is appended to a scratch copy of /repo as `#[cfg(test)] mod verif_witness;`.
//! Oracles are the spec functions of /verif/contracts transcribed to executable Rust. Seed: env VERIF_SEED.
#![allow(clippy::all, dead_code, unused)]
use std::collections::{BTreeMap, HashMap};
use std::num::NonZeroU64;

use crate::index::IndexStateItem;
use crate::types::{BlobHash, WalOp, WalOpRaw};

struct Rng(u64);
impl Rng {
    fn new() -> Self {
        let s = std::env::var("VERIF_SEED").ok().and_then(|s| s.parse::<u64>().ok()).unwrap_or(0);
        Rng(s.wrapping_mul(0x9E3779B97F4A7C15) ^ 0xD1B54A32D192ED03)
    }
    fn next(&mut self) -> u64 {
        self.0 ^= self.0 << 13;
        self.0 ^= self.0 >> 7;
        self.0 ^= self.0 << 17;
        self.0
    }
    fn below(&mut self, n: u64) -> u64 { self.next() % n }
}
fn h(b: u8) -> BlobHash { BlobHash([b; 32]) }

// ---------------- U-state: apply_logical_op against the map model + refcount/stat invariant ----------------
fn check_state_wf(st: &crate::index::IndexStateForWitness<u8>, trace: &str) {
    let mut cnt: HashMap<BlobHash, u32> = HashMap::new();
    let mut size: HashMap<BlobHash, u64> = HashMap::new();
    for (_, it) in st.key_to_hash.iter() {
        *cnt.entry(it.blob_hash).or_default() += 1;
        size.insert(it.blob_hash, it.blob_size);
    }
    let rc: HashMap<BlobHash, u32> = st.hash_to_ref_count.iter().map(|(k, v)| (*k, *v)).collect();
    assert_eq!(rc, cnt, "refcounts != number of keys per hash after: {trace}");
    assert_eq!(st.stats.cas.unique_blobs, cnt.len() as u64, "unique_blobs wrong after: {trace}");
    assert_eq!(st.stats.cas.total_bytes, size.values().sum::<u64>(), "total_bytes wrong after: {trace}");
}

#[test]
fn witness_state_apply_logical_op() {
    let mut rng = Rng::new();
    for round in 0..400 {
        let mut st = crate::index::IndexStateForWitness::<u8>::new();
        let mut model: BTreeMap<u8, IndexStateItem> = BTreeMap::new();
        let mut trace = String::new();
        let steps = 1 + rng.below(14);
        for _ in 0..steps {
            let op = if rng.below(3) < 2 {
                let hb = rng.below(4) as u8;
                WalOp::Put { key: rng.below(5) as u8, hash: h(hb), size: 10 + hb as u64 }
            } else {
                let n = rng.below(4);
                WalOp::Remove { keys: (0..n).map(|_| rng.below(5) as u8).collect() }
            };
            trace.push_str(&format!("{op:?}; "));
            let before: std::collections::HashSet<BlobHash> = st.hash_to_ref_count.keys().copied().collect();
            let ret = st.apply_logical_op(&op).unwrap_or_else(|e| panic!("apply_logical_op failed ({e:?}) after: {trace}"));
            match &op {
                WalOp::Put { key, hash, size } => { model.insert(*key, IndexStateItem { blob_hash: *hash, blob_size: *size }); }
                WalOp::Remove { keys } => { for k in keys { model.remove(k); } }
            }
            assert_eq!(st.key_to_hash, model, "map semantics violated (round {round}) after: {trace}");
            check_state_wf(&st, &trace);
            let after: std::collections::HashSet<BlobHash> = st.hash_to_ref_count.keys().copied().collect();
            let mut expect: Vec<BlobHash> = before.difference(&after).copied().collect();
            let mut got = ret.clone();
            expect.sort(); got.sort();
            assert_eq!(got, expect, "returned unreferenced list is not exactly the hashes that lost their last reference after: {trace}");
        }
    }
    // long, strictly ascending key lists with gaps (the shape `remove_range` produces), keys inside the span that are not listed
    for gap in [2u8, 3, 5] {
        let mut st = crate::index::IndexStateForWitness::<u8>::new();
        let mut model: BTreeMap<u8, (BlobHash, u64)> = BTreeMap::new();
        for k in 0..=200u8 { let hh = h(k % 7); st.apply_logical_op(&WalOp::Put { key: k, hash: hh, size: 10 + (k % 7) as u64 }).unwrap(); model.insert(k, (hh, 10 + (k % 7) as u64)); }
        let keys: Vec<u8> = (10..=190u8).filter(|k| k % gap != 1).collect();
        assert!(keys.len() >= 32);
        st.apply_logical_op(&WalOp::Remove { keys: keys.clone() }).unwrap();
        for k in &keys { model.remove(k); }
        let got: Vec<u8> = st.key_to_hash.keys().copied().collect();
        let want: Vec<u8> = model.keys().copied().collect();
        assert_eq!(got, want, "Remove of {} ascending keys (every key with k % {gap} != 1 in 10..=190) must remove exactly the listed keys", keys.len());
        check_state_wf(&st, &format!("after a long Remove list (gap {gap})"));
    }
}

// ---------------- U-codec: decoders total, round-trip, acceptance equals the documented format ----------------
fn spec_dec_raw_ok(s: &[u8]) -> bool {
    fn bytes(s: &[u8]) -> Option<&[u8]> { if s.len() < 4 { return None; } let n = u32::from_le_bytes(s[..4].try_into().unwrap()) as usize; if s.len() - 4 < n { None } else { Some(&s[4 + n..]) } }
    if s.is_empty() { return false; }
    match s[0] {
        0 => { let Some(r) = bytes(&s[1..]) else { return false }; r.len() >= 40 }
        1 => { if s.len() < 5 { return false; } let n = u32::from_le_bytes(s[1..5].try_into().unwrap()); let mut r = &s[5..]; for _ in 0..n { match bytes(r) { Some(x) => r = x, None => return false } } true }
        _ => false,
    }
}
#[test]
fn witness_codec_wal_op() {
    use crate::serialization::{deserialize_wal_op_raw, serialize_wal_op_raw};
    let mut rng = Rng::new();
    for _ in 0..3000 {
        // round trip of random operations
        let op = if rng.below(2) == 0 {
            let kl = rng.below(40) as usize;
            WalOpRaw::Put { key_bytes: (0..kl).map(|_| rng.next() as u8).collect(), hash: h(rng.next() as u8), size: rng.next() }
        } else {
            let n = rng.below(6);
            WalOpRaw::Remove { keys_bytes: (0..n).map(|_| { let kl = rng.below(9) as usize; (0..kl).map(|_| rng.next() as u8).collect() }).collect() }
        };
        let enc = serialize_wal_op_raw(&op).expect("serialize never fails");
        let dec = deserialize_wal_op_raw(&enc).unwrap_or_else(|e| panic!("decode(encode(op)) failed: {e:?} for {op:?}"));
        assert_eq!(format!("{dec:?}"), format!("{op:?}"), "WAL op codec does not round-trip");
        // arbitrary bytes: never panic; accepted iff the documented format accepts
        let len = rng.below(24) as usize;
        let mut junk: Vec<u8> = (0..len).map(|_| rng.next() as u8).collect();
        if !junk.is_empty() { junk[0] = rng.below(3) as u8; }
        if junk.len() > 4 && rng.below(2) == 0 { junk[2] = 0; junk[3] = 0; junk[4] = 0; if junk.len() > 1 { junk[1] = rng.below(3) as u8; } }
        let r = std::panic::catch_unwind(|| deserialize_wal_op_raw(&junk).is_ok());
        let ok = r.unwrap_or_else(|_| panic!("deserialize_wal_op_raw panicked on {junk:?}"));
        assert_eq!(ok, spec_dec_raw_ok(&junk), "decoder acceptance differs from the documented format on {junk:?}");
    }
}
#[test]
fn witness_codec_index_snapshot_total() {
    use crate::serialization::deserialize_index_state;
    let mut rng = Rng::new();
    // boundary counts in the num_entries field must give Err, never a panic/overflow
    for n in [0u32, 1, 2, 97_612_893, 97_612_894, u32::MAX / 2, u32::MAX - 1, u32::MAX] {
        let mut b = vec![0u8; 8];
        b.extend_from_slice(&n.to_le_bytes());
        b.extend_from_slice(&[0u8; 50]);
        let r = std::panic::catch_unwind(|| deserialize_index_state(&b).is_ok());
        assert!(r.is_ok(), "deserialize_index_state panicked for num_entries={n}");
    }
    for _ in 0..2000 {
        let len = rng.below(80) as usize;
        let junk: Vec<u8> = (0..len).map(|_| if rng.below(3) == 0 { 0 } else { rng.next() as u8 }).collect();
        let r = std::panic::catch_unwind(|| deserialize_index_state(&junk).is_ok());
        assert!(r.is_ok(), "deserialize_index_state panicked on {junk:?}");
    }
}

// ---------------- U-walmgr: segment arithmetic ----------------
#[test]
fn witness_wal_segment_arithmetic() {
    let mut rng = Rng::new();
    let dir = tempfile::tempdir().unwrap();
    for _ in 0..300 {
        let n = 1 + rng.below(9);
        let paths = crate::paths::DbPaths::new(dir.path().to_path_buf());
        let m = crate::wal::WalManager::new(paths, NonZeroU64::new(n).unwrap()).unwrap();
        for v in [1u64, 2, n, n + 1, 2 * n, 2 * n + 1, 1 + rng.below(1000), u64::MAX] {
            let id = m.segment_id_for_op_version(v);
            assert_eq!(id, (v - 1) / n, "segment id of version {v} with N={n}");
            assert!(id.checked_mul(n).map_or(true, |lo| lo < v) , "version {v} below its segment range (N={n})");
        }
    }
}

// ---------------- U-range: get_range == slice for boundary triples ----------------
#[test]
fn witness_range_reads() {
    let mut rng = Rng::new();
    let dir = tempfile::tempdir().unwrap();
    let cas: crate::Cas<String> = crate::Cas::open(dir.path(), crate::Config::default()).unwrap();
    for (i, l) in [0usize, 1, 2, 17, 4096, 65_536, 65_537, 200_000].into_iter().enumerate() {
        let content: Vec<u8> = (0..l).map(|j| (j * 31 + i) as u8).collect();
        let key = format!("k{i}");
        let mut tx = cas.put(key.clone()).unwrap();
        tx.write(&content).unwrap();
        tx.finish().unwrap();
        let lu = l as u64;
        let mut pts = vec![0u64, 1, lu.saturating_sub(1), lu, lu + 1, lu / 2, u64::MAX / 2 + 1, u64::MAX - 1, u64::MAX];
        pts.push(rng.below(lu + 2));
        for &s in &pts {
            for &e in &pts {
                let r = std::panic::catch_unwind(std::panic::AssertUnwindSafe(|| cas.get_range(&key, s, e)));
                let r = r.unwrap_or_else(|_| panic!("get_range panicked for L={l} start={s} end={e}"));
                if s <= e {
                    let lo = s.min(lu) as usize; let hi = e.min(lu) as usize;
                    let got = r.unwrap_or_else(|er| panic!("get_range failed ({er:?}) for L={l} start={s} end={e}")).expect("key present");
                    assert_eq!(&got[..], &content[lo..hi], "get_range != slice for L={l} start={s} end={e}");
                } else if s < lu {
                    assert!(r.is_err(), "start > end inside the blob must be an error (L={l} start={s} end={e})");
                }
            }
        }
        assert_eq!(cas.get_size(&key).unwrap(), Some(lu));
    }
}

// ---------------- U-walio / U-replay: damaged segment is an error or a clean prefix ----------------
#[test]
fn witness_wal_damage() {
    wal_damage_run(None);
    // with an explicit checkpoint after the second operation: damage in the not-yet-checkpointed part
    wal_damage_run(Some(2));
}
fn wal_damage_run(ckpt_after: Option<usize>) {
    use crate::types::Config;
    let dir = tempfile::tempdir().unwrap();
    let cfg = Config { num_ops_per_wal: NonZeroU64::new(1000).unwrap(), scan_orphans_on_startup: false, ..Config::default() };
    let n_ops = 6usize;
    // the history: six puts, one removal, then the same put (same key, same content: byte-identical payloads) three times in a row
    let mut hist: Vec<(String, Option<Vec<u8>>)> = (0..n_ops).map(|i| (format!("key{i}"), Some(format!("value-{i}").into_bytes()))).collect();
    hist.push(("key1".to_string(), None));
    for _ in 0..3 { hist.push(("key2".to_string(), Some(b"value-2".to_vec()))); }
    {
        let cas: crate::Cas<String> = crate::Cas::open(dir.path(), cfg.clone()).unwrap();
        for (i, (k, v)) in hist.iter().enumerate() {
            match v {
                Some(v) => { let mut tx = cas.put(k.clone()).unwrap(); tx.write(v).unwrap(); tx.finish().unwrap(); }
                None => { cas.remove(k).unwrap(); }
            }
            if ckpt_after == Some(i + 1) { cas.checkpoint().unwrap(); }
        }
    }
    let seg = dir.path().join("0_index.wal");
    let orig = std::fs::read(&seg).unwrap();
    // parse record boundaries with the documented format
    let mut recs = vec![]; let mut off = 0usize;
    while off + 44 <= orig.len() {
        let v = u64::from_le_bytes(orig[off..off + 8].try_into().unwrap());
        let n = u32::from_le_bytes(orig[off + 40..off + 44].try_into().unwrap()) as usize;
        if v == 0 || n == 0 { break; }
        recs.push((off, 44 + n)); off += 44 + n;
    }
    assert_eq!(recs.len(), hist.len(), "one log record per acknowledged operation");
    let keys_after = |k: usize| -> Vec<(String, BlobHash, u64)> { // state after the first k records
        let mut m = std::collections::BTreeMap::new();
        for (key, v) in hist.iter().take(k) {
            match v { Some(v) => { m.insert(key.clone(), (crate::calculate_blob_hash(v), v.len() as u64)); } None => { m.remove(key); } }
        }
        m.into_iter().map(|(k, (h, n))| (k, h, n)).collect()
    };
    let mut rng = Rng::new();
    let mut cases: Vec<(String, Vec<u8>, usize)> = vec![];
    for (ri, (o, len)) in recs.iter().enumerate() {
        if ri < ckpt_after.unwrap_or(0) { continue; } // the property speaks about the not-yet-checkpointed part
        // truncation inside record ri
        for cut in [*o, *o + 1, *o + 43, *o + 44, *o + 45, *o + len - 1] { if cut < o + len { cases.push((format!("truncate at {cut} (record {ri})"), orig[..cut].to_vec(), ri)); } }
        // single-byte change in checksum / payload
        for _ in 0..6 { let p = o + 8 + rng.below((*len - 8) as u64) as usize; if p >= o + 40 && p < o + 44 { continue; } let mut d = orig.clone(); d[p] ^= 1 + rng.below(255) as u8; cases.push((format!("flip byte {p} (record {ri})"), d, ri)); }
        // every payload byte of a short record (all records of this history are short)
        if *len <= 44 + 64 { for p in (o + 44)..(o + len) { let mut d = orig.clone(); d[p] ^= 0x01; cases.push((format!("flip payload byte {p} (record {ri})"), d, ri)); } }
    }
    for (what, data, ri) in cases {
        let d2 = tempfile::tempdir().unwrap();
        for e in std::fs::read_dir(dir.path()).unwrap() { let e = e.unwrap(); if e.path().is_file() { std::fs::copy(e.path(), d2.path().join(e.file_name())).unwrap(); } }
        std::fs::create_dir_all(d2.path().join("cas")).unwrap();
        std::fs::write(d2.path().join("0_index.wal"), &data).unwrap();
        let _ = std::fs::remove_file(d2.path().join("LOCK"));
        // open on a helper thread: a decoder that never returns is a failure too (watchdog 60 s)
        let (txc, rxc) = std::sync::mpsc::channel();
        let p2 = d2.path().to_path_buf();
        std::thread::spawn(move || {
            let r = std::panic::catch_unwind(|| crate::Cas::<String>::open(&p2, Config { num_ops_per_wal: NonZeroU64::new(1000).unwrap(), scan_orphans_on_startup: false, ..Config::default() }));
            let _ = txc.send(r);
        });
        let r = rxc.recv_timeout(std::time::Duration::from_secs(60)).unwrap_or_else(|_| panic!("open did not return within 60 s on damaged log: {what}"));
        let r = r.unwrap_or_else(|_| panic!("open panicked on damaged log: {what}"));
        if let Ok(c) = r {
            let got: Vec<(String, BlobHash, u64)> = c.read_index_state().iter().map(|(k, it)| (k.clone(), it.blob_hash, it.blob_size)).collect();
            assert_eq!(got, keys_after(ri), "damaged log silently accepted ({what}, checkpoint after {ckpt_after:?}): state is not the longest undamaged prefix");
        }
    }
}

// ---------------- U-persist: refcounts rebuilt from a snapshot ----------------
#[test]
fn witness_snapshot_reload_refcounts() {
    use crate::types::Config;
    let dir = tempfile::tempdir().unwrap();
    let cfg = Config { scan_orphans_on_startup: false, ..Config::default() };
    {
        let cas: crate::Cas<String> = crate::Cas::open(dir.path(), cfg.clone()).unwrap();
        for k in ["a", "b", "c", "d"] { let mut tx = cas.put(k.to_string()).unwrap(); tx.write(if k == "d" { b"other" } else { b"same" }).unwrap(); tx.finish().unwrap(); }
        cas.checkpoint().unwrap();
    }
    let cas: crate::Cas<String> = crate::Cas::open(dir.path(), cfg).unwrap();
    let st = cas.read_index_state();
    let mut cnt: HashMap<BlobHash, u32> = HashMap::new();
    for (_, it) in st.iter() { *cnt.entry(it.blob_hash).or_default() += 1; }
    let rc: HashMap<BlobHash, u32> = st.known_blobs().map(|(k, v)| (*k, *v)).collect();
    assert_eq!(rc, cnt, "refcounts after loading a snapshot != number of keys per hash");
}

/// U-intents oracle (contract clauses guard_remembers_displaced_registration / drop_restores_displaced_registration /
/// drop_ignores_foreign_entry / drop_leaves_other_keys as an executable model): random register / abandon sequences on two
/// keys and three hashes; after every step the pending-intent map must equal the model.
#[test]
fn witness_intents_protocol() {
    use crate::index::IntentMeta;
    let mut rng = Rng::new();
    for round in 0..300 {
        let dir = tempfile::tempdir().unwrap();
        let cas: crate::Cas<u8> = crate::Cas::open(dir.path(), crate::Config { scan_orphans_on_startup: false, ..Default::default() }).unwrap();
        let index = &cas.as_arc().index;
        let mut model: HashMap<u8, BlobHash> = HashMap::new();
        // live guards with the model's view of what each one displaced
        let mut guards: Vec<(crate::index::IntentGuard<'_, u8>, u8, BlobHash, Option<BlobHash>)> = Vec::new();
        let mut trace = String::new();
        for _ in 0..(3 + rng.below(8)) {
            if guards.is_empty() || rng.below(3) != 0 {
                let k = rng.below(2) as u8;
                let hh = h(1 + rng.below(3) as u8);
                let displaced = model.get(&k).copied();
                let g = index.register_intent(k, IntentMeta { blob_hash: hh, blob_size: 1 }).unwrap();
                model.insert(k, hh);
                trace.push_str(&format!("register(k{}, h{}); ", k, hh.0[0]));
                guards.push((g, k, hh, displaced));
            } else {
                let i = rng.below(guards.len() as u64) as usize;
                let (g, k, hh, displaced) = guards.remove(i);
                drop(g);
                trace.push_str(&format!("abandon(guard of k{} h{}); ", k, hh.0[0]));
                if model.get(&k) == Some(&hh) {
                    model.remove(&k);
                    if let Some(d) = displaced { model.insert(k, d); }
                }
            }
            let real: HashMap<u8, BlobHash> = index.pending_intents.lock().iter().map(|(k, v)| (*k, *v)).collect();
            assert_eq!(real, model, "round {round}: pending intents differ from the contract model after: {trace}");
        }
        drop(guards);
    }
}

/// S-skel / U-intents oracle for the intent protocol (C04/C05/C07), driven from one thread through the real critical
/// sections: an in-flight put (intent registered, blob renamed into cas/, commit not yet run) of content X under key k1,
/// while another operation drops X's last index reference. Scenarios: remove / remove_range / overwrite of the referencing
/// key, with the in-flight key equal to or different from it, with 1..3 further in-flight puts of other contents. After
/// everything commits: every key's blob exists with the right bytes, and cas/ holds exactly the referenced contents.
#[test]
fn witness_inflight_put_protection() {
    use crate::index::IntentMeta;
    let cfg = crate::Config { scan_orphans_on_startup: false, ..Default::default() };
    let contents: [&[u8]; 4] = [b"content X (shared)", b"content Y", b"content Z", b"content W"];
    for scenario in 0..48u32 {
        let op = scenario % 3;                 // 0 remove, 1 remove_range, 2 overwrite with other content
        let same_key = (scenario / 3) % 2 == 1; // the in-flight put targets the key that is being removed/overwritten
        let extra = (scenario / 6) % 4;        // number of additional in-flight puts (other contents, other keys)
        let commit_order_rev = scenario / 24 == 1;
        // two in-flight puts on the SAME key is the recorded known finding F1 (one hash per key in the intent map): the
        // overwrite of k0 while put(k0, X) is in flight is therefore not part of this oracle
        if op == 2 && same_key { continue; }
        let dir = tempfile::tempdir().unwrap();
        let cas: crate::Cas<String> = crate::Cas::open(dir.path(), cfg.clone()).unwrap();
        let inner = cas.as_arc();
        let put = |k: &str, v: &[u8]| { let mut t = cas.put(k.to_string()).unwrap(); t.write(v).unwrap(); t.finish().unwrap(); };
        put("k0", contents[0]); put("k9", b"unrelated");
        for e in 0..extra { put(&format!("e{e}"), contents[1 + e as usize % 3]); }
        let what = format!("scenario {scenario}: op={} same_key={same_key} extra_inflight={extra} rev={commit_order_rev}", ["remove", "remove_range", "overwrite"][op as usize]);
        // in-flight puts: register intent + rename staged blob into cas/
        let mut guards = Vec::new();
        let mut stage = |key: String, data: &[u8]| {
            let h = crate::calculate_blob_hash(data);
            let staged = dir.path().join("staging").join(format!("w-{}.staged", key));
            std::fs::write(&staged, data).unwrap();
            let g = inner.index.register_intent(key.clone(), IntentMeta { blob_hash: h, blob_size: data.len() as u64 }).unwrap();
            inner.cas_manager.commit_blob(&staged, &h).unwrap();
            (g, key, data.to_vec())
        };
        guards.push(stage(if same_key { "k0".to_string() } else { "k1".to_string() }, contents[0]));
        for e in 0..extra { guards.push(stage(format!("f{e}"), contents[1 + e as usize % 3])); }
        // the operation that drops the last index reference(s)
        match op {
            0 => { assert!(cas.remove(&"k0".to_string()).unwrap()); for e in 0..extra { cas.remove(&format!("e{e}")).unwrap(); } }
            1 => { cas.remove_range("e0".to_string()..="k0".to_string()).unwrap(); }
            _ => { put("k0", b"other content replacing X"); for e in 0..extra { put(&format!("e{e}"), b"other content replacing the extra"); } }
        }
        for (_, _, data) in guards.iter() {
            let p = dir.path().join("cas").join(crate::calculate_blob_hash(data).relative_path());
            assert!(p.exists(), "{what}: a blob that an in-flight put is about to reference was deleted");
        }
        if commit_order_rev { guards.reverse(); }
        let mut model: BTreeMap<String, Vec<u8>> = cas.read_index_state().iter().map(|(k, _)| (k.clone(), Vec::new())).collect();
        for (g, key, data) in guards {
            let delete_fn = |hashes: &[BlobHash]| -> Result<(), crate::cas_manager::CasManagerError> { inner.cas_manager.delete_blobs(hashes) };
            g.commit(&delete_fn).unwrap();
            model.insert(key, data);
        }
        // every key readable with the right bytes; cas/ == referenced contents
        let mut referenced = std::collections::BTreeSet::new();
        let snapshot: Vec<(String, IndexStateItem)> = cas.read_index_state().iter().map(|(k, i)| (k.clone(), *i)).collect();
        for (k, item) in snapshot {
            let got = cas.get(&k).unwrap_or_else(|e| panic!("{what}: get({k}) failed after all puts returned: {e:?}")).unwrap();
            assert_eq!(crate::calculate_blob_hash(&got), item.blob_hash, "{what}: key {k} wrong bytes");
            if let Some(want) = model.get(&k) { if !want.is_empty() { assert_eq!(&got[..], &want[..], "{what}: key {k}"); } }
            referenced.insert(item.blob_hash);
        }
        let mut on_disk = std::collections::BTreeSet::new();
        fn walk(p: &std::path::Path, out: &mut std::collections::BTreeSet<BlobHash>) { if let Ok(rd) = std::fs::read_dir(p) { for e in rd.flatten() { let p = e.path(); if p.is_dir() { walk(&p, out); } else if let Ok(h) = BlobHash::from_relative_path(&p) { out.insert(h); } } } }
        walk(&dir.path().join("cas"), &mut on_disk);
        assert_eq!(on_disk, referenced, "{what}: cas/ must hold exactly the referenced contents once nothing is in flight");
        assert!(inner.index.pending_intents.lock().is_empty(), "{what}: no registration may be left behind");
    }
}
