// ===== WAL format model (written from the documented format: DESIGN.md §4) =====
pub open spec fn le64(v: u64) -> Seq<u8> {
    seq![(v & 0xff) as u8, ((v >> 8) & 0xff) as u8, ((v >> 16) & 0xff) as u8, ((v >> 24) & 0xff) as u8,
         ((v >> 32) & 0xff) as u8, ((v >> 40) & 0xff) as u8, ((v >> 48) & 0xff) as u8, ((v >> 56) & 0xff) as u8]
}
pub open spec fn le32(v: u32) -> Seq<u8> {
    seq![(v & 0xff) as u8, ((v >> 8) & 0xff) as u8, ((v >> 16) & 0xff) as u8, ((v >> 24) & 0xff) as u8]
}
/// BLAKE3 as a mathematical function of the byte string (trusted: the blake3 crate computes a function)
pub uninterp spec fn blake3_spec(d: Seq<u8>) -> BlobHash;

/// one framed record: [u64 version LE][32-byte BLAKE3(payload)][u32 payload length LE][payload]
pub open spec fn enc_record(version: u64, payload: Seq<u8>) -> Seq<u8> {
    le64(version) + blake3_spec(payload).0@ + le32(payload.len() as u32) + payload
}
pub open spec fn enc_record_h(version: u64, hash: BlobHash, payload: Seq<u8>) -> Seq<u8> {
    le64(version) + hash.0@ + le32(payload.len() as u32) + payload
}
/// segment of version v (v >= 1) for N ops per segment
pub open spec fn seg(v: int, n: int) -> int { (v - 1) / n }
// ---- independent reader of one framed record (documented format) ----
pub enum EntryDec { End, Corrupt, Entry { version: u64, payload: Seq<u8>, rest: Seq<u8> } }
pub open spec fn dec_entry(s: Seq<u8>) -> EntryDec {
    if s.len() < 44 { EntryDec::End } else {
        let v = de64(s.subrange(0, 8));
        if v == 0 { EntryDec::End } else {
            let n = de32(s.subrange(40, 44)) as int;
            if n == 0 { EntryDec::End }
            else if s.len() < 44 + n { EntryDec::Corrupt }
            else {
                let p = s.subrange(44, 44 + n);
                if blake3_spec(p).0@ != s.subrange(8, 40) { EntryDec::Corrupt }
                else { EntryDec::Entry { version: v, payload: p, rest: s.subrange(44 + n, s.len() as int) } }
            }
        }
    }
}
