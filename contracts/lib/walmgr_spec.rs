
impl WalManager {
    pub open spec fn n(&self) -> int { self.num_ops_per_wal.get() as int }
    pub open spec fn nxt(&self) -> int { self.next_op_version.get() as int }
    /// between appends the active segment writer holds no buffered bytes (each append flushes)
    pub open spec fn writer_clean(&self) -> bool {
        self.active_writer is Some ==> bw(&self.active_writer->0.writer).buf.len() == 0 && bw(&self.active_writer->0.writer).cap == 8192
    }
}
pub open spec fn sat_succ(v: int) -> int { if v >= u64::MAX { u64::MAX as int } else { v + 1 } }
pub open spec fn ends_with(s: Seq<u8>, t: Seq<u8>) -> bool {
    s.len() >= t.len() && s.subrange(s.len() - t.len(), s.len() as int) == t
}
pub proof fn lemma_ends_with_append(a: Seq<u8>, b: Seq<u8>)
    ensures ends_with(a + b, b)
{
    assert((a + b).subrange((a + b).len() - b.len(), (a + b).len() as int) =~= b);
}
pub proof fn lemma_seg_range(v: int, n: int)
    requires v >= 1, n >= 1,
    ensures seg(v, n) >= 0, seg(v, n) * n < v, v <= (seg(v, n) + 1) * n,
{
    let q = (v - 1) / n;
    vstd::arithmetic::div_mod::lemma_fundamental_div_mod(v - 1, n);
    vstd::arithmetic::div_mod::lemma_mod_bound(v - 1, n);
    assert(v - 1 == n * q + (v - 1) % n);
    assert(n * q == q * n) by (nonlinear_arith);
    assert((q + 1) * n == q * n + n) by (nonlinear_arith);
    vstd::arithmetic::div_mod::lemma_div_pos_is_pos(v - 1, n);
}
/// every version above `cp` lives in a segment >= seg(cp): pruning ids < seg(cp) keeps them (C20)
pub proof fn lemma_prune_keeps_uncheckpointed(cp: int, v: int, n: int)
    requires cp >= 1, v > cp, n >= 1,
    ensures seg(v, n) >= seg(cp, n),
{
    vstd::arithmetic::div_mod::lemma_div_is_ordered(cp - 1, v - 1, n);
}
/// versions map to segments monotonically (segment ids never go back: a sealed segment is never written again)
pub proof fn lemma_seg_monotone(a: int, b: int, n: int)
    requires a >= 1, a <= b, n >= 1,
    ensures seg(a, n) <= seg(b, n),
{
    vstd::arithmetic::div_mod::lemma_div_is_ordered(a - 1, b - 1, n);
}
