pub proof fn lemma_le32_roundtrip(v: u32)
    ensures de32(le32(v)) == v, le32(v).len() == 4,
{
    assert(((v & 0xff) as u8 as u32 | (((v >> 8) & 0xff) as u8 as u32) << 8 | (((v >> 16) & 0xff) as u8 as u32) << 16 | (((v >> 24) & 0xff) as u8 as u32) << 24) == v) by (bit_vector);
}
pub proof fn lemma_le64_roundtrip(v: u64)
    ensures de64(le64(v)) == v, le64(v).len() == 8,
{
    assert(((v & 0xff) as u8 as u64 | (((v >> 8) & 0xff) as u8 as u64) << 8 | (((v >> 16) & 0xff) as u8 as u64) << 16 | (((v >> 24) & 0xff) as u8 as u64) << 24
        | (((v >> 32) & 0xff) as u8 as u64) << 32 | (((v >> 40) & 0xff) as u8 as u64) << 40 | (((v >> 48) & 0xff) as u8 as u64) << 48 | (((v >> 56) & 0xff) as u8 as u64) << 56) == v) by (bit_vector);
}
pub proof fn lemma_enc_keys_push(ks: Seq<Seq<u8>>, k: Seq<u8>)
    ensures enc_keys(ks.push(k)) == enc_keys(ks) + enc_bytes(k),
    decreases ks.len(),
{
    if ks.len() == 0 {
        assert(ks.push(k).subrange(1, 1) =~= Seq::<Seq<u8>>::empty());
        assert(enc_keys(ks.push(k).subrange(1, 1)) =~= Seq::<u8>::empty());
        assert(enc_keys(ks.push(k)) =~= enc_bytes(k));
        assert(enc_keys(ks) + enc_bytes(k) =~= enc_bytes(k));
    } else {
        let t = ks.subrange(1, ks.len() as int);
        lemma_enc_keys_push(t, k);
        assert(ks.push(k).subrange(1, ks.push(k).len() as int) =~= t.push(k));
        assert(enc_keys(ks.push(k)) =~= enc_bytes(ks[0]) + (enc_keys(t) + enc_bytes(k)));
        assert(enc_keys(ks) + enc_bytes(k) =~= enc_bytes(ks[0]) + (enc_keys(t) + enc_bytes(k)));
    }
}
pub open spec fn keys_acc(acc: Seq<Seq<u8>>, tail: Option<(Seq<Seq<u8>>, Seq<u8>)>) -> Option<(Seq<Seq<u8>>, Seq<u8>)> {
    match tail { None => None, Some((ks, r)) => Some((acc + ks, r)) }
}
pub proof fn lemma_dec_keys_step(acc: Seq<Seq<u8>>, s: Seq<u8>, m: nat)
    requires m > 0,
    ensures
        dec_bytes(s) is None ==> keys_acc(acc, dec_keys(s, m)) is None,
        dec_bytes(s) is Some ==> keys_acc(acc, dec_keys(s, m)) == keys_acc(acc.push((dec_bytes(s)->0).0), dec_keys((dec_bytes(s)->0).1, (m - 1) as nat)),
{
    if dec_bytes(s) is Some {
        let k = (dec_bytes(s)->0).0; let rest = (dec_bytes(s)->0).1;
        match dec_keys(rest, (m - 1) as nat) {
            None => {}
            Some((ks, r2)) => { assert(acc + (seq![k] + ks) =~= acc.push(k) + ks); }
        }
    }
}
pub proof fn lemma_vecs_view_push(v: Seq<Vec<u8>>, x: Vec<u8>)
    ensures vecs_view(v.push(x)) == vecs_view(v).push(x@),
{
    assert(vecs_view(v.push(x)) =~= vecs_view(v).push(x@));
}
pub broadcast proof fn lemma_vecs_view_push_b(v: Seq<Vec<u8>>, x: Vec<u8>)
    ensures #[trigger] vecs_view(v.push(x)) == vecs_view(v).push(x@),
{
    assert(vecs_view(v.push(x)) =~= vecs_view(v).push(x@));
}
pub proof fn lemma_dec_enc_bytes(b: Seq<u8>, rest: Seq<u8>)
    requires b.len() <= u32::MAX,
    ensures dec_bytes(enc_bytes(b) + rest) == Some((b, rest)),
{
    let s = enc_bytes(b) + rest;
    lemma_le32_roundtrip(b.len() as u32);
    assert(s.subrange(0, 4) =~= le32(b.len() as u32));
    assert(s.subrange(4, s.len() as int) =~= b + rest);
    assert((b + rest).subrange(0, b.len() as int) =~= b);
    assert((b + rest).subrange(b.len() as int, (b + rest).len() as int) =~= rest);
}
pub proof fn lemma_dec_enc_keys(ks: Seq<Seq<u8>>, rest: Seq<u8>)
    requires forall|i: int| 0 <= i < ks.len() ==> (#[trigger] ks[i]).len() <= u32::MAX,
    ensures dec_keys(enc_keys(ks) + rest, ks.len()) == Some((ks, rest)),
    decreases ks.len(),
{
    if ks.len() == 0 {
        assert(enc_keys(ks) + rest =~= rest);
        assert(ks =~= Seq::<Seq<u8>>::empty());
    } else {
        let t = ks.subrange(1, ks.len() as int);
        assert(forall|i: int| 0 <= i < t.len() ==> (#[trigger] t[i]) == ks[i + 1]);
        lemma_dec_enc_keys(t, rest);
        lemma_dec_enc_bytes(ks[0], enc_keys(t) + rest);
        assert(enc_keys(ks) + rest =~= enc_bytes(ks[0]) + (enc_keys(t) + rest));
        assert(seq![ks[0]] + t =~= ks);
    }
}
pub proof fn lemma_dec_u64_enc(x: u64, rest: Seq<u8>)
    ensures dec_u64(le64(x) + rest) == Some((x, rest)),
{
    lemma_le64_roundtrip(x);
    let s = le64(x) + rest;
    assert(s.subrange(0, 8) =~= le64(x));
    assert(s.subrange(8, s.len() as int) =~= rest);
}
pub proof fn lemma_dec_u32_enc(x: u32, rest: Seq<u8>)
    ensures dec_u32(le32(x) + rest) == Some((x, rest)),
{
    lemma_le32_roundtrip(x);
    let s = le32(x) + rest;
    assert(s.subrange(0, 4) =~= le32(x));
    assert(s.subrange(4, s.len() as int) =~= rest);
}
pub proof fn lemma_dec_fixed_enc(h: Seq<u8>, rest: Seq<u8>)
    ensures dec_fixed(h + rest, h.len()) == Some((h, rest)),
{
    let s = h + rest;
    assert(s.subrange(0, h.len() as int) =~= h);
    assert(s.subrange(h.len() as int, s.len() as int) =~= rest);
}
pub proof fn lemma_roundtrip_put(key: Seq<u8>, hash: Seq<u8>, size: u64, rest: Seq<u8>)
    requires key.len() <= u32::MAX, hash.len() == 32,
    ensures dec_raw(enc_raw(RawView::Put { key, hash, size }) + rest) == Some(RawView::Put { key, hash, size }),
{
    hide(le64); hide(le32); hide(de64); hide(de32); hide(enc_bytes); hide(dec_bytes); hide(dec_u64); hide(dec_fixed);
    let s = enc_raw(RawView::Put { key, hash, size }) + rest;
    let t2 = le64(size) + rest;
    let t1 = hash + t2;
    assert(s.len() > 0 && s[0] == 0u8);
    assert(s.subrange(1, s.len() as int) =~= enc_bytes(key) + t1);
    lemma_dec_enc_bytes(key, t1);
    lemma_dec_fixed_enc(hash, t2);
    lemma_dec_u64_enc(size, rest);
}
pub proof fn lemma_roundtrip_remove(keys: Seq<Seq<u8>>, rest: Seq<u8>)
    requires keys.len() <= u32::MAX, forall|i: int| 0 <= i < keys.len() ==> (#[trigger] keys[i]).len() <= u32::MAX,
    ensures dec_raw(enc_raw(RawView::Remove { keys }) + rest) == Some(RawView::Remove { keys }),
{
    hide(le64); hide(le32); hide(de64); hide(de32); hide(enc_bytes); hide(dec_bytes); hide(dec_u32);
    let s = enc_raw(RawView::Remove { keys }) + rest;
    let t1 = enc_keys(keys) + rest;
    assert(s.len() > 0 && s[0] == 1u8);
    assert(s.subrange(1, s.len() as int) =~= le32(keys.len() as u32) + t1);
    lemma_dec_u32_enc(keys.len() as u32, t1);
    lemma_dec_enc_keys(keys, rest);
}
/// C16: decoding the encoding of any operation (whose lengths fit the u32 fields) yields that operation,
/// also when followed by arbitrary trailing bytes
pub proof fn lemma_roundtrip_raw(v: RawView, rest: Seq<u8>)
    requires raw_lens_ok(v),
    ensures dec_raw(enc_raw(v) + rest) == Some(v),
{
    match v {
        RawView::Put { key, hash, size } => { lemma_roundtrip_put(key, hash, size, rest); }
        RawView::Remove { keys } => { lemma_roundtrip_remove(keys, rest); }
    }
}
