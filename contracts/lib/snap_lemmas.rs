// ===== lemmas about the snapshot codec model (lib/snap_spec.rs) =====
pub proof fn lemma_dec_snap_entries_step(acc: Seq<SnapEntry>, s: Seq<u8>, m: nat)
    requires m > 0,
    ensures
        dec_snap_entry(s) is None ==> ents_acc(acc, dec_snap_entries(s, m)) is None,
        dec_snap_entry(s) is Some ==> ents_acc(acc, dec_snap_entries(s, m)) == ents_acc(acc.push((dec_snap_entry(s)->0).0), dec_snap_entries((dec_snap_entry(s)->0).1, (m - 1) as nat)),
{
    if dec_snap_entry(s) is Some {
        let e = (dec_snap_entry(s)->0).0; let rest = (dec_snap_entry(s)->0).1;
        match dec_snap_entries(rest, (m - 1) as nat) {
            None => {}
            Some((es, r2)) => { assert(acc + (seq![e] + es) =~= acc.push(e) + es); }
        }
    }
}
pub proof fn lemma_enc_entries_push(es: Seq<SnapEntry>, e: SnapEntry)
    ensures enc_entries(es.push(e)) == enc_entries(es) + enc_entry(e),
    decreases es.len(),
{
    if es.len() == 0 {
        assert(es.push(e).subrange(1, 1) =~= Seq::<SnapEntry>::empty());
        assert(enc_entries(es.push(e).subrange(1, 1)) =~= Seq::<u8>::empty());
        assert(enc_entries(es.push(e)) =~= enc_entry(e));
        assert(enc_entries(es) + enc_entry(e) =~= enc_entry(e));
    } else {
        let t = es.subrange(1, es.len() as int);
        lemma_enc_entries_push(t, e);
        assert(es.push(e).subrange(1, es.push(e).len() as int) =~= t.push(e));
        assert(enc_entries(es.push(e)) =~= enc_entry(es[0]) + (enc_entries(t) + enc_entry(e)));
        assert(enc_entries(es) + enc_entry(e) =~= enc_entry(es[0]) + (enc_entries(t) + enc_entry(e)));
    }
}
pub proof fn lemma_dec_enc_snap_entry(e: SnapEntry, rest: Seq<u8>)
    requires e.0.len() <= u32::MAX, e.1.len() == 32,
    ensures dec_snap_entry(enc_entry(e) + rest) == Some((e, rest)),
{
    hide(le64); hide(le32); hide(de64); hide(de32); hide(enc_bytes); hide(dec_bytes); hide(dec_u64); hide(dec_fixed);
    let t2 = le64(e.2) + rest;
    let t1 = e.1 + t2;
    assert(enc_entry(e) + rest =~= enc_bytes(e.0) + t1);
    lemma_dec_enc_bytes(e.0, t1);
    lemma_dec_fixed_enc(e.1, t2);
    lemma_dec_u64_enc(e.2, rest);
}
/// C16: decoding an encoded entry list yields the same list (and the rest of the input)
pub proof fn lemma_dec_enc_snap_entries(es: Seq<SnapEntry>, rest: Seq<u8>)
    requires forall|i: int| 0 <= i < es.len() ==> (#[trigger] es[i]).0.len() <= u32::MAX && es[i].1.len() == 32,
    ensures dec_snap_entries(enc_entries(es) + rest, es.len()) == Some((es, rest)),
    decreases es.len(),
{
    hide(enc_entry); hide(dec_snap_entry);
    if es.len() == 0 {
        assert(enc_entries(es) + rest =~= rest);
        assert(es =~= Seq::<SnapEntry>::empty());
    } else {
        let t = es.subrange(1, es.len() as int);
        assert(forall|i: int| 0 <= i < t.len() ==> (#[trigger] t[i]) == es[i + 1]);
        lemma_dec_enc_snap_entries(t, rest);
        lemma_dec_enc_snap_entry(es[0], enc_entries(t) + rest);
        assert(enc_entries(es) + rest =~= enc_entry(es[0]) + (enc_entries(t) + rest));
        assert(seq![es[0]] + t =~= es);
    }
}
/// C16: snapshot round trip on the documented format: the independent decoder reads back version and entries
pub proof fn lemma_snapshot_roundtrip(version: u64, es: Seq<SnapEntry>)
    requires snap_lens_ok(es),
    ensures dec_index(enc_index(version, es)) == Some((version, es)),
{
    hide(le64); hide(le32); hide(de64); hide(de32); hide(dec_u64); hide(dec_u32); hide(enc_entries); hide(dec_snap_entries);
    let t1 = le32(es.len() as u32) + enc_entries(es);
    assert(enc_index(version, es) =~= le64(version) + t1);
    lemma_dec_u64_enc(version, t1);
    lemma_dec_u32_enc(es.len() as u32, enc_entries(es));
    lemma_dec_enc_snap_entries(es, Seq::<u8>::empty());
    assert(enc_entries(es) + Seq::<u8>::empty() =~= enc_entries(es));
}
