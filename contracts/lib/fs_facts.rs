// ===== stable filesystem facts (ghost predicates). A fact is *produced* only by the postcondition of an
// effectful primitive / stub and *consumed* by preconditions of other effectful primitives, so an ordering
// requirement "A before B" becomes "B requires the fact that only A's success establishes".
// All facts are monotone (once true they stay true), which is what makes a timeless predicate sound.

/// the database's WAL segment size N (creation-time setting; one store per verification world)
pub uninterp spec fn wal_n() -> int;
/// "a complete index snapshot whose version is >= v has been atomically renamed to the index path"
pub uninterp spec fn snapshot_covers(v: u64) -> bool;
/// snapshots only move forward
pub broadcast axiom fn axiom_snapshot_covers_down(v: u64, w: u64)
    requires #[trigger] snapshot_covers(v), w <= v,
    ensures #[trigger] snapshot_covers(w);
/// segment ids < c may be unlinked: every version they can hold ( <= c*N ) is covered by the snapshot
pub open spec fn prune_safe(c: u64) -> bool {
    c == 0 || exists|v: u64| #[trigger] snapshot_covers(v) && c * wal_n() <= v
}
