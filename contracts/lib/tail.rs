} // verus!
fn main() {}
