// ===== what the snapshot decoder's map has to do with the decoded entry list (needs IndexStateItem) =====
pub open spec fn entry_matches(e: SnapEntry, kv: Seq<u8>, it: IndexStateItem) -> bool { e.0 == kv && e.1 == it.blob_hash.0@ && e.2 == it.blob_size }
/// nothing invented: every key of the map is an entry of the list, with that entry's hash and size
pub open spec fn decoded_sound(m: Map<Vec<u8>, IndexStateItem>, es: Seq<SnapEntry>) -> bool {
    forall|kb: Vec<u8>| #[trigger] m.contains_key(kb) ==> exists|i: int| 0 <= i < es.len() && entry_matches(#[trigger] es[i], kb@, m[kb])
}
/// nothing lost: every entry that is not overwritten by a later entry with the same key bytes is in the map
pub open spec fn decoded_complete(m: Map<Vec<u8>, IndexStateItem>, es: Seq<SnapEntry>) -> bool {
    forall|i: int| #![trigger no_later_dup(es, i)] 0 <= i < es.len() && no_later_dup(es, i) ==> exists|kb: Vec<u8>| #![trigger m.contains_key(kb)] m.contains_key(kb) && entry_matches(es[i], kb@, m[kb])
}
