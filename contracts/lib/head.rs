#![feature(allocator_api)]
#![feature(panic_internals)]
#![feature(sized_hierarchy)]
#![feature(const_destruct)]
#![feature(nonzero_internals)]
#![allow(unused_imports, dead_code, unused_variables, unused_mut, unused_assignments, non_snake_case, unreachable_code, unused_braces, unused_parens)]
use vstd::prelude::*;
use std::num::NonZeroU64;
use std::path::{Path, PathBuf};
use std::collections::BTreeMap;
use std::io::{BufWriter, ErrorKind, Read, Write};
use std::fs::{File, OpenOptions};
use std::fmt::Debug;
verus! {
// 64-bit target assumed (stated in the evidence): usize is 8 bytes
global size_of usize == 8;
