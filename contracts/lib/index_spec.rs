// ===== abstract model of the index (DESIGN.md §4): ordered map K -> (hash, size), refcounts, statistics =====
pub open spec fn item_of(hash: BlobHash, size: u64) -> IndexStateItem { IndexStateItem { blob_hash: hash, blob_size: size } }

/// number of keys mapped to hash h
pub open spec fn cnt<K>(m: Map<K, IndexStateItem>, h: BlobHash) -> nat {
    m.dom().filter(|k: K| m[k].blob_hash == h).len()
}
/// same content => same recorded size
pub open spec fn size_consistent<K>(m: Map<K, IndexStateItem>) -> bool {
    forall|a: K, b: K| #![trigger m[a], m[b]] m.contains_key(a) && m.contains_key(b) && m[a].blob_hash == m[b].blob_hash ==> m[a].blob_size == m[b].blob_size
}
/// recorded size of content h (well-defined under size_consistent)
pub open spec fn sz<K>(m: Map<K, IndexStateItem>, h: BlobHash) -> nat {
    let k = choose|k: K| m.contains_key(k) && m[k].blob_hash == h;
    m[k].blob_size as nat
}
pub open spec fn sum_set(s: Set<BlobHash>, g: spec_fn(BlobHash) -> nat) -> nat
    decreases s.len()
{
    if s.finite() && s.len() > 0 { let x = s.choose(); g(x) + sum_set(s.remove(x), g) } else { 0 }
}
pub open spec fn total_size<K>(m: Map<K, IndexStateItem>, hs: Set<BlobHash>) -> nat {
    sum_set(hs, |h: BlobHash| sz(m, h))
}
/// refcount table == exact count of keys per hash, no zero entries
pub open spec fn refs_wf<K>(m: Map<K, IndexStateItem>, rc: Map<BlobHash, u32>) -> bool {
    forall|h: BlobHash| #![trigger rc.contains_key(h)] #![trigger cnt(m, h)]
        (rc.contains_key(h) <==> cnt(m, h) > 0) && (rc.contains_key(h) ==> rc[h] as nat == cnt(m, h))
}
pub open spec fn rc_get(rc: Map<BlobHash, u32>, h: BlobHash) -> nat {
    if rc.contains_key(h) { rc[h] as nat } else { 0 }
}
pub open spec fn pos_rc(rc: Map<BlobHash, u32>) -> bool { forall|h: BlobHash| rc.contains_key(h) ==> rc[h] > 0 }

pub open spec fn remove_seq<K>(m: Map<K, IndexStateItem>, ks: Seq<K>, n: nat) -> Map<K, IndexStateItem>
    decreases n
{ if n == 0 { m } else { remove_seq(m, ks, (n - 1) as nat).remove(ks[n - 1]) } }

/// what a plain ordered map does for one logged operation (C01 oracle)
pub open spec fn model_apply<K>(m: Map<K, IndexStateItem>, op: WalOp<K>) -> Map<K, IndexStateItem> {
    match op {
        WalOp::Put { key, hash, size } => m.insert(key, item_of(hash, size)),
        WalOp::Remove { keys } => remove_seq(m, keys@, keys@.len()),
    }
}
/// a Put must respect content-addressing: same hash => same size as what is already recorded
pub open spec fn op_size_consistent<K>(m: Map<K, IndexStateItem>, op: WalOp<K>) -> bool {
    match op {
        WalOp::Put { key, hash, size } => forall|k: K| #![auto] m.contains_key(k) && m[k].blob_hash == hash ==> m[k].blob_size == size,
        WalOp::Remove { keys } => true,
    }
}
/// representation invariant = the statement of C12
pub open spec fn wf<K>(s: IndexState<K>) -> bool {
    &&& s.key_to_hash@.dom().finite()
    &&& refs_wf(s.key_to_hash@, s.hash_to_ref_count@)
    &&& s.hash_to_ref_count@.dom().finite()
    &&& size_consistent(s.key_to_hash@)
    &&& s.stats.cas.unique_blobs as nat == s.hash_to_ref_count@.dom().len()
    &&& s.stats.cas.total_bytes as nat == total_size(s.key_to_hash@, s.hash_to_ref_count@.dom())
}
pub open spec fn frame_ok<K>(a: IndexState<K>, b: IndexState<K>) -> bool {
    a.last_persisted_version == b.last_persisted_version && a.stats.index == b.stats.index
}
/// machine bounds under which no counter can overflow (stated, not assumed silently)
pub open spec fn bounds_ok<K>(s: IndexState<K>, op: WalOp<K>) -> bool {
    &&& forall|h: BlobHash| rc_get(s.hash_to_ref_count@, h) < u32::MAX
    &&& s.stats.cas.unique_blobs < u64::MAX
    &&& match op { WalOp::Put { key, hash, size } => s.stats.cas.total_bytes + size <= u64::MAX, WalOp::Remove { keys } => true }
}

// ---- lemmas ----
pub proof fn lemma_cnt_pos<K>(m: Map<K, IndexStateItem>, k: K)
    requires m.contains_key(k), m.dom().finite(),
    ensures cnt(m, m[k].blob_hash) > 0,
{
    let h = m[k].blob_hash;
    let f = m.dom().filter(|x: K| m[x].blob_hash == h);
    assert(f.contains(k));
    if f.len() == 0 { assert(f =~= Set::<K>::empty()); }
}
pub proof fn lemma_cnt_witness<K>(m: Map<K, IndexStateItem>, h: BlobHash) -> (k: K)
    requires cnt(m, h) > 0, m.dom().finite(),
    ensures m.contains_key(k), m[k].blob_hash == h,
{
    let f = m.dom().filter(|x: K| m[x].blob_hash == h);
    let k = f.choose();
    assert(f.contains(k)) by { if !f.contains(k) { assert(f.len() != 0); vstd::set_lib::lemma_set_empty_equivalency_len(f); assert(false); } }
    k
}
pub proof fn lemma_sz<K>(m: Map<K, IndexStateItem>, k: K)
    requires m.contains_key(k), size_consistent(m),
    ensures sz(m, m[k].blob_hash) == m[k].blob_size as nat,
{
    let h = m[k].blob_hash;
    let k2 = choose|k2: K| m.contains_key(k2) && m[k2].blob_hash == h;
    assert(m.contains_key(k2) && m[k2].blob_hash == h);
    assert(m[k2].blob_size == m[k].blob_size);
}
pub proof fn lemma_cnt_insert_new<K>(m: Map<K, IndexStateItem>, k: K, it: IndexStateItem, h: BlobHash)
    requires !m.contains_key(k), m.dom().finite(),
    ensures cnt(m.insert(k, it), h) == cnt(m, h) + (if it.blob_hash == h { 1nat } else { 0nat }),
{
    let m2 = m.insert(k, it);
    let f1 = m.dom().filter(|x: K| m[x].blob_hash == h);
    let f2 = m2.dom().filter(|x: K| m2[x].blob_hash == h);
    if it.blob_hash == h { assert(f2 =~= f1.insert(k)); } else { assert(f2 =~= f1); }
}
pub proof fn lemma_cnt_remove<K>(m: Map<K, IndexStateItem>, k: K, h: BlobHash)
    requires m.contains_key(k), m.dom().finite(),
    ensures cnt(m.remove(k), h) + (if m[k].blob_hash == h { 1nat } else { 0nat }) == cnt(m, h),
{
    let m2 = m.remove(k);
    let f1 = m.dom().filter(|x: K| m[x].blob_hash == h);
    let f2 = m2.dom().filter(|x: K| m2[x].blob_hash == h);
    if m[k].blob_hash == h { assert(f2 =~= f1.remove(k)); } else { assert(f2 =~= f1); }
}
pub proof fn lemma_cnt_replace<K>(m: Map<K, IndexStateItem>, k: K, it: IndexStateItem, h: BlobHash)
    requires m.contains_key(k), m.dom().finite(),
    ensures cnt(m.insert(k, it), h) + (if m[k].blob_hash == h { 1nat } else { 0nat }) == cnt(m, h) + (if it.blob_hash == h { 1nat } else { 0nat }),
{
    lemma_cnt_remove(m, k, h);
    lemma_cnt_insert_new(m.remove(k), k, it, h);
    assert(m.remove(k).insert(k, it) =~= m.insert(k, it));
}
pub proof fn lemma_wf_pos<K>(m: Map<K, IndexStateItem>, rc: Map<BlobHash, u32>)
    requires refs_wf(m, rc)
    ensures pos_rc(rc)
{
    assert forall|h: BlobHash| rc.contains_key(h) implies rc[h] > 0 by { assert(cnt(m, h) > 0); }
}
pub proof fn lemma_sum_remove(s: Set<BlobHash>, g: spec_fn(BlobHash) -> nat, x: BlobHash)
    requires s.finite(), s.contains(x),
    ensures sum_set(s, g) == g(x) + sum_set(s.remove(x), g),
    decreases s.len(),
{
    let y = s.choose();
    if y == x {
    } else {
        // sum(s) = g(y) + sum(s - y); IH on s - y removing x; and on s - x removing y
        lemma_sum_remove(s.remove(y), g, x);
        assert(s.remove(x).contains(y));
        lemma_sum_remove(s.remove(x), g, y);
        assert(s.remove(y).remove(x) =~= s.remove(x).remove(y));
    }
}
pub proof fn lemma_sum_insert(s: Set<BlobHash>, g: spec_fn(BlobHash) -> nat, x: BlobHash)
    requires s.finite(), !s.contains(x),
    ensures sum_set(s.insert(x), g) == g(x) + sum_set(s, g),
{
    lemma_sum_remove(s.insert(x), g, x);
    assert(s.insert(x).remove(x) =~= s);
}
pub proof fn lemma_sum_ext(s: Set<BlobHash>, g1: spec_fn(BlobHash) -> nat, g2: spec_fn(BlobHash) -> nat)
    requires s.finite(), forall|h: BlobHash| s.contains(h) ==> g1(h) == g2(h),
    ensures sum_set(s, g1) == sum_set(s, g2),
    decreases s.len(),
{
    if s.len() > 0 {
        let x = s.choose();
        lemma_sum_ext(s.remove(x), g1, g2);
    }
}
pub proof fn lemma_sum_ge(s: Set<BlobHash>, g: spec_fn(BlobHash) -> nat, x: BlobHash)
    requires s.finite(), s.contains(x),
    ensures sum_set(s, g) >= g(x),
{
    lemma_sum_remove(s, g, x);
}
pub open spec fn dec_rc(rc: Map<BlobHash, u32>, h: BlobHash) -> Map<BlobHash, u32> {
    if rc[h] == 1 { rc.remove(h) } else { rc.insert(h, (rc[h] - 1) as u32) }
}
pub open spec fn inc_rc(rc: Map<BlobHash, u32>, h: BlobHash) -> Map<BlobHash, u32> {
    rc.insert(h, (rc_get(rc, h) + 1) as u32)
}
pub proof fn lemma_sz_stable<K>(m: Map<K, IndexStateItem>, m2: Map<K, IndexStateItem>, hs: Set<BlobHash>)
    requires
        hs.finite(), m.dom().finite(), m2.dom().finite(), size_consistent(m), size_consistent(m2),
        forall|h: BlobHash| hs.contains(h) ==> cnt(m2, h) > 0,
        forall|k: K| m2.contains_key(k) && hs.contains(m2[k].blob_hash) ==> m.contains_key(k) && m[k] == m2[k],
    ensures total_size(m2, hs) == total_size(m, hs),
{
    assert forall|h: BlobHash| hs.contains(h) implies sz(m2, h) == sz(m, h) by {
        let k = lemma_cnt_witness(m2, h);
        lemma_sz(m2, k);
        lemma_sz(m, k);
    }
    lemma_sum_ext(hs, |h: BlobHash| sz(m2, h), |h: BlobHash| sz(m, h));
}
pub proof fn lemma_remove_key<K>(m: Map<K, IndexStateItem>, rc: Map<BlobHash, u32>, k: K)
    requires m.dom().finite(), rc.dom().finite(), refs_wf(m, rc), size_consistent(m), m.contains_key(k),
    ensures ({
        let h = m[k].blob_hash; let m2 = m.remove(k); let rc2 = dec_rc(rc, h);
        &&& rc.contains_key(h) && rc[h] >= 1 && rc.dom().len() >= 1
        &&& refs_wf(m2, rc2) && size_consistent(m2) && m2.dom().finite() && rc2.dom().finite()
        &&& total_size(m, rc.dom()) >= m[k].blob_size
        &&& (rc[h] == 1 ==> rc2.dom().len() + 1 == rc.dom().len() && total_size(m2, rc2.dom()) + m[k].blob_size == total_size(m, rc.dom()))
        &&& (rc[h] != 1 ==> rc2.dom().len() == rc.dom().len() && total_size(m2, rc2.dom()) == total_size(m, rc.dom()))
    }),
{
    let h = m[k].blob_hash; let m2 = m.remove(k); let rc2 = dec_rc(rc, h);
    lemma_cnt_pos(m, k);
    assert(rc.contains_key(h));
    assert(rc.dom().contains(h));
    if rc.dom().len() == 0 { vstd::set_lib::lemma_set_empty_equivalency_len(rc.dom()); }
    assert forall|x: BlobHash| (#[trigger] rc2.contains_key(x) <==> cnt(m2, x) > 0) && (rc2.contains_key(x) ==> rc2[x] as nat == cnt(m2, x)) by {
        lemma_cnt_remove(m, k, x);
    }
    lemma_sz(m, k);
    lemma_sum_ge(rc.dom(), |x: BlobHash| sz(m, x), h);
    if rc[h] == 1 {
        assert(rc2.dom() =~= rc.dom().remove(h));
        lemma_sum_remove(rc.dom(), |x: BlobHash| sz(m, x), h);
    } else {
        assert(rc2.dom() =~= rc.dom());
    }
    assert forall|x: BlobHash| rc2.dom().contains(x) implies cnt(m2, x) > 0 by { assert(rc2.contains_key(x)); }
    lemma_sz_stable(m, m2, rc2.dom());
}
pub proof fn lemma_put_new<K>(m: Map<K, IndexStateItem>, rc: Map<BlobHash, u32>, k: K, h: BlobHash, s: u64)
    requires
        m.dom().finite(), rc.dom().finite(), refs_wf(m, rc), size_consistent(m), !m.contains_key(k),
        rc_get(rc, h) < u32::MAX,
        forall|k2: K| #![auto] m.contains_key(k2) && m[k2].blob_hash == h ==> m[k2].blob_size == s,
    ensures ({
        let m2 = m.insert(k, item_of(h, s)); let rc2 = inc_rc(rc, h);
        &&& refs_wf(m2, rc2) && size_consistent(m2) && m2.dom().finite() && rc2.dom().finite()
        &&& (!rc.contains_key(h) ==> rc2.dom().len() == rc.dom().len() + 1 && total_size(m2, rc2.dom()) == total_size(m, rc.dom()) + s)
        &&& (rc.contains_key(h) ==> rc2.dom().len() == rc.dom().len() && total_size(m2, rc2.dom()) == total_size(m, rc.dom()))
    }),
{
    let it = item_of(h, s);
    let m2 = m.insert(k, it); let rc2 = inc_rc(rc, h);
    assert forall|x: BlobHash| (#[trigger] rc2.contains_key(x) <==> cnt(m2, x) > 0) && (rc2.contains_key(x) ==> rc2[x] as nat == cnt(m2, x)) by {
        lemma_cnt_insert_new(m, k, it, x);
    }
    assert(m2.contains_key(k));
    lemma_sz(m2, k);
    // total over the old domain is unchanged: every old hash keeps a witness key with the same item
    assert forall|x: BlobHash| rc.dom().contains(x) implies cnt(m, x) > 0 by { assert(rc.contains_key(x)); }
    // view m as the "smaller" map: keys of m are keys of m2 with the same item
    assert forall|x: BlobHash| rc.dom().contains(x) implies sz(m2, x) == sz(m, x) by {
        let k0 = lemma_cnt_witness(m, x);
        assert(m2.contains_key(k0) && m2[k0] == m[k0]);
        lemma_sz(m, k0);
        lemma_sz(m2, k0);
    }
    lemma_sum_ext(rc.dom(), |x: BlobHash| sz(m2, x), |x: BlobHash| sz(m, x));
    if rc.contains_key(h) {
        assert(rc2.dom() =~= rc.dom());
    } else {
        assert(rc2.dom() =~= rc.dom().insert(h));
        lemma_sum_insert(rc.dom(), |x: BlobHash| sz(m2, x), h);
    }
}
pub broadcast proof fn lemma_push_contains<A>(s: Seq<A>, a: A, x: A)
    ensures #[trigger] s.push(a).contains(x) <==> (s.contains(x) || x == a),
{
    if s.contains(x) { let i = choose|i: int| 0 <= i < s.len() && s[i] == x; assert(s.push(a)[i] == x); }
    if x == a { assert(s.push(a)[s.len() as int] == a); }
    if s.push(a).contains(x) { let i = choose|i: int| 0 <= i < s.push(a).len() && s.push(a)[i] == x; if i < s.len() { assert(s[i] == x); } }
}
pub broadcast proof fn lemma_push_no_dup<A>(s: Seq<A>, a: A)
    requires s.no_duplicates(), !s.contains(a),
    ensures #[trigger] s.push(a).no_duplicates(),
{
    assert forall|i: int, j: int| 0 <= i < s.push(a).len() && 0 <= j < s.push(a).len() && i != j implies s.push(a)[i] != s.push(a)[j] by {
        if i < s.len() && j < s.len() { } else if i < s.len() { assert(s.contains(s[i])); } else if j < s.len() { assert(s.contains(s[j])); }
    }
}
pub broadcast proof fn lemma_empty_contains<A>(x: A)
    ensures !(#[trigger] Seq::<A>::empty().contains(x)),
{
}
/// refcount part of lemma_put_new alone (no size assumptions): used when rebuilding refcounts from a snapshot
pub proof fn lemma_refs_put_new<K>(m: Map<K, IndexStateItem>, rc: Map<BlobHash, u32>, k: K, it: IndexStateItem)
    requires m.dom().finite(), rc.dom().finite(), refs_wf(m, rc), !m.contains_key(k), rc_get(rc, it.blob_hash) < u32::MAX,
    ensures ({ let m2 = m.insert(k, it); let rc2 = inc_rc(rc, it.blob_hash);
        refs_wf(m2, rc2) && m2.dom().finite() && rc2.dom().finite() }),
{
    let m2 = m.insert(k, it); let rc2 = inc_rc(rc, it.blob_hash);
    assert forall|x: BlobHash| (#[trigger] rc2.contains_key(x) <==> cnt(m2, x) > 0) && (rc2.contains_key(x) ==> rc2[x] as nat == cnt(m2, x)) by {
        lemma_cnt_insert_new(m, k, it, x);
    }
}
pub proof fn lemma_cnt_le_len<K>(m: Map<K, IndexStateItem>, h: BlobHash)
    requires m.dom().finite(),
    ensures cnt(m, h) <= m.dom().len(),
{
    vstd::set_lib::lemma_len_subset(m.dom().filter(|k: K| m[k].blob_hash == h), m.dom());
}
pub proof fn lemma_refs_empty<K>()
    ensures refs_wf(Map::<K, IndexStateItem>::empty(), Map::<BlobHash, u32>::empty()),
{
    let m = Map::<K, IndexStateItem>::empty();
    assert forall|h: BlobHash| cnt(m, h) == 0 by {
        assert(m.dom().filter(|k: K| m[k].blob_hash == h) =~= Set::<K>::empty());
    }
}
