// ===== ghost model of std::io::BufWriter<W> over a file (trusted; transcribed from
// library/std/src/io/buffered/bufwriter.rs: write_all / write_all_cold / flush_buf) =====
#[verifier::external_trait_specification]
pub trait ExWrite {
    type ExternalTraitSpecificationFor: std::io::Write;
}
#[verifier::external_type_specification]
#[verifier::external_body]
#[verifier::reject_recursive_types(W)]
pub struct ExBufWriter<W: ?Sized + std::io::Write>(std::io::BufWriter<W>);

/// bytes of the underlying file object as the OS has received them through completed write(2) calls
pub uninterp spec fn inner_bytes<W: ?Sized>(w: &W) -> Seq<u8>;
/// "an fdatasync/fsync covering exactly this content of the file object has returned Ok".
/// It is a predicate of the file *value*: any write produces a new value for which nothing is known,
/// so the only way to establish it is a successful sync call on the current value.
pub uninterp spec fn inner_synced<W: ?Sized>(w: &W) -> bool;
pub uninterp spec fn bw_inner<W: ?Sized + std::io::Write>(w: &BufWriter<W>) -> &W;
pub uninterp spec fn bw_buf<W: ?Sized + std::io::Write>(w: &BufWriter<W>) -> Seq<u8>;
pub uninterp spec fn bw_cap<W: ?Sized + std::io::Write>(w: &BufWriter<W>) -> nat;

/// ghost history of the file contents after each completed write(2) issued through this writer (crash points)
pub uninterp spec fn bw_trace<W: ?Sized + std::io::Write>(w: &BufWriter<W>) -> Seq<Seq<u8>>;
pub struct BwState { pub file: Seq<u8>, pub buf: Seq<u8>, pub cap: nat }
pub open spec fn bw<W: ?Sized + std::io::Write>(w: &BufWriter<W>) -> BwState {
    BwState { file: inner_bytes(bw_inner(w)), buf: bw_buf(w), cap: bw_cap(w) }
}
/// everything the program has handed to the writer, in order
pub open spec fn bw_all(s: BwState) -> Seq<u8> { s.file + s.buf }

/// BufWriter::write_all on success: a write that fits stays in the buffer; otherwise the buffer is
/// flushed first (one write(2) of the old buffer) and then the data is either written directly
/// (len >= capacity: a second write(2)) or buffered.
pub open spec fn bw_write_all_ok(s: BwState, d: Seq<u8>) -> BwState {
    if d.len() < s.cap - s.buf.len() { BwState { buf: s.buf + d, ..s } }
    else {
        let s1 = if d.len() > s.cap - s.buf.len() { BwState { file: s.file + s.buf, buf: Seq::<u8>::empty(), ..s } } else { s };
        if d.len() >= s1.cap { BwState { file: s1.file + d, ..s1 } } else { BwState { buf: s1.buf + d, ..s1 } }
    }
}
/// the file contents after each write(2) that one successful write_all performs (0, 1 or 2 of them)
pub open spec fn bw_write_all_states(s: BwState, d: Seq<u8>) -> Seq<Seq<u8>> {
    if d.len() < s.cap - s.buf.len() { Seq::<Seq<u8>>::empty() }
    else {
        let flushed = d.len() > s.cap - s.buf.len() && s.buf.len() > 0;
        let f1 = if d.len() > s.cap - s.buf.len() { s.file + s.buf } else { s.file };
        let a = if flushed { seq![f1] } else { Seq::<Seq<u8>>::empty() };
        let cap_after = d.len() > s.cap - s.buf.len();
        let buf_after: Seq<u8> = if cap_after { Seq::<u8>::empty() } else { s.buf };
        if d.len() >= s.cap { a + seq![f1 + d] } else { a }
    }
}

pub assume_specification<W: ?Sized + std::io::Write> [<BufWriter<W> as Write>::write_all] (w: &mut BufWriter<W>, d: &[u8]) -> (r: Result<(), std::io::Error>)
    ensures
        bw(final(w)).cap == bw(old(w)).cap,
        r is Ok ==> bw(final(w)) == bw_write_all_ok(bw(old(w)), d@),
        r is Ok ==> bw_trace(final(w)) == bw_trace(old(w)) + bw_write_all_states(bw(old(w)), d@),
        // on failure some prefix of (buffer ++ data) may have reached the file or stay buffered
        r is Err ==> exists|k: int| 0 <= k <= d@.len() && #[trigger] bw_all(bw(final(w))) == bw_all(bw(old(w))) + d@.subrange(0, k);

pub assume_specification<W: ?Sized + std::io::Write> [<BufWriter<W> as Write>::flush] (w: &mut BufWriter<W>) -> (r: Result<(), std::io::Error>)
    ensures
        bw(final(w)).cap == bw(old(w)).cap,
        r is Ok ==> bw(final(w)).file == bw(old(w)).file + bw(old(w)).buf && bw(final(w)).buf.len() == 0,
        r is Ok ==> bw_trace(final(w)) == (if bw(old(w)).buf.len() > 0 { bw_trace(old(w)).push(bw(old(w)).file + bw(old(w)).buf) } else { bw_trace(old(w)) }),
        r is Err ==> bw_all(bw(final(w))) == bw_all(bw(old(w)));

pub assume_specification<W: ?Sized + std::io::Write> [BufWriter::<W>::get_ref] (w: &BufWriter<W>) -> (r: &W)
    ensures r == bw_inner(w);

pub assume_specification<W: std::io::Write> [BufWriter::<W>::new] (inner: W) -> (r: BufWriter<W>)
    ensures *bw_inner(&r) == inner, bw_buf(&r).len() == 0, bw_cap(&r) == 8192;

pub assume_specification [std::fs::File::sync_data] (f: &File) -> (r: Result<(), std::io::Error>)
    ensures r is Ok ==> inner_synced(f);
pub assume_specification [std::fs::File::sync_all] (f: &File) -> (r: Result<(), std::io::Error>)
    ensures r is Ok ==> inner_synced(f);
/// Write::write may accept only a prefix of the data (short write); the caller must look at the count
pub assume_specification<W: ?Sized + std::io::Write> [<BufWriter<W> as Write>::write] (w: &mut BufWriter<W>, d: &[u8]) -> (r: Result<usize, std::io::Error>)
    ensures
        bw(final(w)).cap == bw(old(w)).cap,
        r is Ok ==> r->Ok_0 <= d@.len() && bw_all(bw(final(w))) == bw_all(bw(old(w))) + d@.subrange(0, r->Ok_0 as int),
        r is Err ==> bw_all(bw(final(w))) == bw_all(bw(old(w)));
