// ===== assumed specifications for std::collections::HashMap pieces vstd does not cover =====
pub assume_specification<'a, K, V, S, A, Q> [std::collections::HashMap::<K, V, S, A>::get_mut] (m: &'a mut std::collections::HashMap<K, V, S, A>, k: &Q) -> (r: std::option::Option<&'a mut V>)
    where
        A: std::alloc::Allocator,
        K: std::cmp::Eq + std::hash::Hash + std::borrow::Borrow<Q>,
        Q: std::marker::MetaSized + std::hash::Hash + std::cmp::Eq + ?Sized,
        S: std::hash::BuildHasher,
    ensures
        obeys_key_model::<K>() && builds_valid_hashers::<S>() ==> (match r {
            Some(v) => contains_borrowed_key(old(m)@, k)
                && maps_borrowed_key_to_value(old(m)@, k, *v)
                && maps_borrowed_key_to_value(final(m)@, k, *final(v))
                && final(m)@.dom() == old(m)@.dom()
                && (forall|key: K| #![auto] old(m)@.contains_key(key) && !maps_borrowed_key_to_value(old(m)@.restrict(set![key]), k, *v) ==> final(m)@[key] == old(m)@[key])
            ,
            None => !contains_borrowed_key(old(m)@, k) && final(m)@ == old(m)@,
        }),
;
pub assume_specification<'a, K, V> [std::collections::hash_map::Entry::<'a, K, V>::or_default] (e: std::collections::hash_map::Entry<'a, K, V>) -> (r: &'a mut V)
    where V: std::default::Default
    ensures
        (match e.value() { Some(v) => *r == v, None => call_ensures(V::default, (), *r) }),
        e.final_value() == Some(*final(r)),
;
