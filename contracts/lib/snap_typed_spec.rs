// ===== the snapshot of a typed index map (needs KeyBytes::key_spec and IndexStateItem) =====
pub open spec fn snap_entry<K: KeyBytes>(k: K, it: IndexStateItem) -> SnapEntry { (k.key_spec(), it.blob_hash.0@, it.blob_size) }
/// `ks` lists every key of `m` exactly once
pub open spec fn lists_keys<K>(ks: Seq<K>, m: Map<K, IndexStateItem>) -> bool {
    ks.no_duplicates() && ks.len() == m.dom().len() && forall|i: int| 0 <= i < ks.len() ==> m.contains_key(#[trigger] ks[i])
}
pub open spec fn entries_for<K: KeyBytes>(ks: Seq<K>, m: Map<K, IndexStateItem>) -> Seq<SnapEntry> {
    Seq::new(ks.len(), |i: int| snap_entry(ks[i], m[ks[i]]))
}
