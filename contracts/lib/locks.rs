// ===== R9 lock stubs: parking_lot types as opaque containers (acquire = havoc of the protected value) =====
#[verifier::external_body]
#[verifier::reject_recursive_types(T)]
pub struct Mutex<T> { _p: std::marker::PhantomData<T> }
#[verifier::external_body]
#[verifier::reject_recursive_types(T)]
pub struct RwLock<T> { _p: std::marker::PhantomData<T> }
impl<T> Mutex<T> {
    /// acquire = havoc: the protected value is whatever the lock invariant allows (none assumed here)
    #[verifier::external_body]
    pub fn lock(&self) -> (g: &mut T) { unimplemented!() }
}
