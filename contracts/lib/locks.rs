// ===== R9 lock stubs: parking_lot types as opaque containers (acquire = havoc of the protected value) =====
#[verifier::external_body]
#[verifier::reject_recursive_types(T)]
pub struct Mutex<T> { _p: std::marker::PhantomData<T> }
#[verifier::external_body]
#[verifier::reject_recursive_types(T)]
pub struct RwLock<T> { _p: std::marker::PhantomData<T> }
