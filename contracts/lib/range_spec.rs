// ===== model for positional reads of a blob file (trusted) =====
/// bytes of the file at path p (what the OS holds)
pub uninterp spec fn path_content(p: &Path) -> Seq<u8>;
/// whole content of an open file
pub uninterp spec fn file_all(f: &File) -> Seq<u8>;
/// capacity of a Vec<u8> (vstd has no notion of capacity)
pub uninterp spec fn vec_cap(v: &Vec<u8>) -> nat;
/// initialised bytes in the spare capacity beyond len (what a read into `spare_capacity_mut()` left there)
pub uninterp spec fn spare_bytes(v: &Vec<u8>) -> Seq<u8>;

pub struct Bytes { pub v: Vec<u8> }
impl Bytes {
    #[verifier::external_body] pub fn new() -> (r: Bytes) ensures r.v@ == Seq::<u8>::empty() { unimplemented!() }
    #[verifier::external_body] pub fn from(b: Vec<u8>) -> (r: Bytes) ensures r.v@ == b@ { unimplemented!() }
}
/// File::open(&PathBuf): the file's content is the path's content
#[verifier::external_body]
pub fn vx_file_open(p: &PathBuf) -> (r: Result<File, std::io::Error>)
    ensures r is Ok ==> file_all(&r->Ok_0) == path_content(pathbuf_as_path(p))
{ File::open(p) }
pub uninterp spec fn pathbuf_as_path(p: &PathBuf) -> &Path;
/// Vec::with_capacity(n): std guarantees capacity >= n; it panics when n bytes exceed isize::MAX
#[verifier::external_body]
pub fn vx_vec_with_capacity(n: usize) -> (r: Vec<u8>)
    requires /*allocation_within_isize*/ n <= isize::MAX as usize,
    ensures r@.len() == 0, vec_cap(&r) >= n
{ Vec::with_capacity(n) }
pub struct VxSpare { pub n: usize }
impl VxSpare { pub fn len(&self) -> (r: usize) ensures r == self.n { self.n } }
/// `buff.spare_capacity_mut()`: only its length is observed by the code
#[verifier::external_body]
pub fn vx_spare(v: &mut Vec<u8>) -> (s: VxSpare)
    ensures s.n == vec_cap(old(v)) - old(v)@.len(), *final(v) == *old(v)
{ VxSpare { n: v.spare_capacity_mut().len() } }
/// models `from_raw_parts_mut(spare.as_mut_ptr().cast(), remaining)` + `file.read_at(slice, off)`:
/// positional read of at most `remaining` bytes into the spare capacity (len unchanged)
#[verifier::external_body]
pub fn vx_read_at_into_spare(f: &File, v: &mut Vec<u8>, remaining: usize, off: u64) -> (r: Result<usize, std::io::Error>)
    requires /*read_within_spare_capacity*/ remaining <= vec_cap(old(v)) - old(v)@.len(),
    ensures
        final(v)@ == old(v)@, vec_cap(final(v)) == vec_cap(old(v)),
        r is Ok ==> ({ let n = r->Ok_0 as int; let fl = file_all(f).len() as int;
            &&& 0 <= n <= remaining
            &&& ((off as int) >= fl ==> n == 0)
            &&& ((off as int) < fl ==> n <= fl - off && (n == 0 <==> remaining == 0))
            &&& spare_bytes(final(v)).len() >= n
            &&& (n > 0 ==> spare_bytes(final(v)).subrange(0, n) == file_all(f).subrange(off as int, off as int + n)) }),
{ unimplemented!() }
/// models `buff.set_len(buff.len() + bytes_read)` after such a read
#[verifier::external_body]
pub fn vx_set_len_after_read(v: &mut Vec<u8>, n: usize)
    requires /*set_len_within_capacity*/ old(v)@.len() + n <= vec_cap(old(v)), spare_bytes(old(v)).len() >= n,
    ensures final(v)@ == old(v)@ + spare_bytes(old(v)).subrange(0, n as int), vec_cap(final(v)) == vec_cap(old(v))
{ unimplemented!() }
pub open spec fn clamp(x: int, l: int) -> int { if x <= l { x } else { l } }
pub open spec fn MAX_BLOB() -> int { 0x7fff_ffff_ffff_ffff }
