// ===== codec model, written from the documented formats (serialization.rs doc comments), not from the code =====
// WalOpRaw:  Put    = [0][u32 key_len][key][32-byte hash][u64 size]
//            Remove = [1][u32 num_keys]([u32 len][key])*
pub enum RawView {
    Put { key: Seq<u8>, hash: Seq<u8>, size: u64 },
    Remove { keys: Seq<Seq<u8>> },
}
pub open spec fn vecs_view(v: Seq<Vec<u8>>) -> Seq<Seq<u8>> { Seq::new(v.len(), |i: int| v[i]@) }
pub open spec fn raw_view(op: WalOpRaw) -> RawView {
    match op {
        WalOpRaw::Put { key_bytes, hash, size } => RawView::Put { key: key_bytes@, hash: hash.0@, size },
        WalOpRaw::Remove { keys_bytes } => RawView::Remove { keys: vecs_view(keys_bytes@) },
    }
}
pub open spec fn enc_bytes(b: Seq<u8>) -> Seq<u8> { le32(b.len() as u32) + b }
pub open spec fn enc_keys(ks: Seq<Seq<u8>>) -> Seq<u8>
    decreases ks.len()
{ if ks.len() == 0 { Seq::<u8>::empty() } else { enc_bytes(ks[0]) + enc_keys(ks.subrange(1, ks.len() as int)) } }
pub open spec fn enc_raw(v: RawView) -> Seq<u8> {
    match v {
        RawView::Put { key, hash, size } => seq![0u8] + enc_bytes(key) + hash + le64(size),
        RawView::Remove { keys } => seq![1u8] + le32(keys.len() as u32) + enc_keys(keys),
    }
}
/// lengths fit the u32 length fields (otherwise `as u32` truncates: explicit precondition of round-trip)
pub open spec fn raw_lens_ok(v: RawView) -> bool {
    match v {
        RawView::Put { key, hash, size } => key.len() <= u32::MAX && hash.len() == 32,
        RawView::Remove { keys } => keys.len() <= u32::MAX && forall|i: int| 0 <= i < keys.len() ==> (#[trigger] keys[i]).len() <= u32::MAX,
    }
}
// ---- independent decoder of the documented format ----
pub open spec fn dec_u32(s: Seq<u8>) -> Option<(u32, Seq<u8>)> {
    if s.len() >= 4 { Some((de32(s.subrange(0, 4)), s.subrange(4, s.len() as int))) } else { None }
}
pub open spec fn dec_u64(s: Seq<u8>) -> Option<(u64, Seq<u8>)> {
    if s.len() >= 8 { Some((de64(s.subrange(0, 8)), s.subrange(8, s.len() as int))) } else { None }
}
pub open spec fn dec_fixed(s: Seq<u8>, n: nat) -> Option<(Seq<u8>, Seq<u8>)> {
    if s.len() >= n { Some((s.subrange(0, n as int), s.subrange(n as int, s.len() as int))) } else { None }
}
pub open spec fn dec_bytes(s: Seq<u8>) -> Option<(Seq<u8>, Seq<u8>)> {
    match dec_u32(s) { None => None, Some((n, rest)) => dec_fixed(rest, n as nat) }
}
pub open spec fn dec_keys(s: Seq<u8>, n: nat) -> Option<(Seq<Seq<u8>>, Seq<u8>)>
    decreases n
{
    if n == 0 { Some((Seq::<Seq<u8>>::empty(), s)) } else {
        match dec_bytes(s) {
            None => None,
            Some((k, rest)) => match dec_keys(rest, (n - 1) as nat) {
                None => None,
                Some((ks, r2)) => Some((seq![k] + ks, r2)),
            },
        }
    }
}
pub open spec fn dec_raw(s: Seq<u8>) -> Option<RawView> {
    if s.len() == 0 { None } else if s[0] == 0 {
        match dec_bytes(s.subrange(1, s.len() as int)) { None => None, Some((key, r1)) =>
            match dec_fixed(r1, 32) { None => None, Some((h, r2)) =>
                match dec_u64(r2) { None => None, Some((size, r3)) =>
                    Some(RawView::Put { key, hash: h, size }) } } }
    } else if s[0] == 1 {
        match dec_u32(s.subrange(1, s.len() as int)) { None => None, Some((n, r1)) =>
            match dec_keys(r1, n as nat) { None => None, Some((keys, r2)) => Some(RawView::Remove { keys }) } }
    } else { None }
}
// ---- index snapshot: [u64 last_persisted_version][u32 num_entries]([u32 key_len][key][32-byte hash][u64 size])* ----
pub open spec fn dec_entry_rest(s: Seq<u8>) -> Option<Seq<u8>> {
    match dec_bytes(s) { None => None, Some((k, r1)) => match dec_fixed(r1, 32) { None => None, Some((h, r2)) => match dec_u64(r2) { None => None, Some((sz, r3)) => Some(r3) } } }
}
/// n entries can be decoded from s (independent reader of the documented snapshot format)
pub open spec fn dec_entries_ok(s: Seq<u8>, n: nat) -> bool
    decreases n
{ if n == 0 { true } else { match dec_entry_rest(s) { None => false, Some(rest) => dec_entries_ok(rest, (n - 1) as nat) } } }
pub open spec fn dec_index_ok(s: Seq<u8>) -> bool {
    match dec_u64(s) { None => false, Some((v, r1)) => match dec_u32(r1) { None => false, Some((n, r2)) => dec_entries_ok(r2, n as nat) } }
}
pub open spec fn dec_index_version(s: Seq<u8>) -> u64 { de64(s.subrange(0, 8)) }
