// ===== R9 lock stubs with lock invariants (U-applyops): acquire yields a value satisfying the lock's invariant
// (lock-invariant rule: the invariant is established when the value is created and must be re-established by every
// holder before release — the release obligations woven into the functions of this unit); nothing else is known. =====
pub trait LockInv { spec fn lock_inv(&self) -> bool; }
#[verifier::external_body]
#[verifier::reject_recursive_types(T)]
pub struct Mutex<T> { _p: std::marker::PhantomData<T> }
#[verifier::external_body]
#[verifier::reject_recursive_types(T)]
pub struct RwLock<T> { _p: std::marker::PhantomData<T> }
impl<T: LockInv> Mutex<T> {
    #[verifier::external_body]
    pub fn lock(&self) -> (g: &mut T) ensures g.lock_inv() { unimplemented!() }
}
impl<T: LockInv> RwLock<T> {
    #[verifier::external_body]
    pub fn write(&self) -> (g: &mut T) ensures g.lock_inv() { unimplemented!() }
}
