// ===== R9 lock stubs with lock invariants (U-applyops): acquire yields a value satisfying the lock's invariant
// (lock-invariant rule: the invariant is established when the value is created and must be re-established by every
// holder before release — the release obligations woven into the functions of this unit); nothing else is known.
// `lock_inv` is uninterpreted; the unit states what it means for the types it knows (definitional axioms); a lock
// protecting any other type has an unknown invariant. =====
pub uninterp spec fn lock_inv<T>(t: T) -> bool;
#[verifier::external_body]
#[verifier::reject_recursive_types(T)]
pub struct Mutex<T> { _p: std::marker::PhantomData<T> }
#[verifier::external_body]
#[verifier::reject_recursive_types(T)]
pub struct RwLock<T> { _p: std::marker::PhantomData<T> }
impl<T> Mutex<T> {
    #[verifier::external_body]
    pub fn lock(&self) -> (g: &mut T) ensures lock_inv(*g) { unimplemented!() }
}
impl<T> RwLock<T> {
    #[verifier::external_body]
    pub fn write(&self) -> (g: &mut T) ensures lock_inv(*g) { unimplemented!() }
    #[verifier::external_body]
    pub fn read(&self) -> (g: &T) ensures lock_inv(*g) { unimplemented!() }
}
