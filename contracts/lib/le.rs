// ===== R5: little-endian conversions (std signatures cannot carry an assume_specification) =====
pub trait VxToLe: Sized {
    type Out;
    spec fn le_spec(self) -> Seq<u8>;
    spec fn out_view(o: Self::Out) -> Seq<u8>;
    fn vx_to_le_bytes(self) -> (r: Self::Out)
        ensures Self::out_view(r) == self.le_spec();
}
impl VxToLe for u64 {
    type Out = [u8; 8];
    open spec fn le_spec(self) -> Seq<u8> { le64(self) }
    open spec fn out_view(o: [u8; 8]) -> Seq<u8> { o@ }
    #[verifier::external_body]
    fn vx_to_le_bytes(self) -> (r: [u8; 8]) { self.to_le_bytes() }
}
impl VxToLe for u32 {
    type Out = [u8; 4];
    open spec fn le_spec(self) -> Seq<u8> { le32(self) }
    open spec fn out_view(o: [u8; 4]) -> Seq<u8> { o@ }
    #[verifier::external_body]
    fn vx_to_le_bytes(self) -> (r: [u8; 4]) { self.to_le_bytes() }
}
pub open spec fn de64(s: Seq<u8>) -> u64 {
    (s[0] as u64 | (s[1] as u64) << 8 | (s[2] as u64) << 16 | (s[3] as u64) << 24
     | (s[4] as u64) << 32 | (s[5] as u64) << 40 | (s[6] as u64) << 48 | (s[7] as u64) << 56) as u64
}
pub open spec fn de32(s: Seq<u8>) -> u32 {
    (s[0] as u32 | (s[1] as u32) << 8 | (s[2] as u32) << 16 | (s[3] as u32) << 24) as u32
}
#[verifier::external_body]
pub fn vx_u64_from_le_bytes(a: [u8; 8]) -> (r: u64)
    ensures r == de64(a@)
{ u64::from_le_bytes(a) }
#[verifier::external_body]
pub fn vx_u32_from_le_bytes(a: [u8; 4]) -> (r: u32)
    ensures r == de32(a@)
{ u32::from_le_bytes(a) }
