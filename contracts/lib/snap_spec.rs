// ===== index snapshot codec model, written from the documented format (serialization.rs doc comment):
// [u64 last_persisted_version][u32 num_entries]([u32 key_len][key][32-byte hash][u64 size])*   — entries as (key, hash, size)
pub type SnapEntry = (Seq<u8>, Seq<u8>, u64);
pub open spec fn enc_entry(e: SnapEntry) -> Seq<u8> { enc_bytes(e.0) + e.1 + le64(e.2) }
pub open spec fn enc_entries(es: Seq<SnapEntry>) -> Seq<u8>
    decreases es.len()
{ if es.len() == 0 { Seq::<u8>::empty() } else { enc_entry(es[0]) + enc_entries(es.subrange(1, es.len() as int)) } }
pub open spec fn enc_index(version: u64, es: Seq<SnapEntry>) -> Seq<u8> { le64(version) + le32(es.len() as u32) + enc_entries(es) }
pub open spec fn snap_lens_ok(es: Seq<SnapEntry>) -> bool {
    es.len() <= u32::MAX && forall|i: int| 0 <= i < es.len() ==> (#[trigger] es[i]).0.len() <= u32::MAX && es[i].1.len() == 32
}
// ---- independent decoder of the documented format, returning the entry list ----
pub open spec fn dec_snap_entry(s: Seq<u8>) -> Option<(SnapEntry, Seq<u8>)> {
    match dec_bytes(s) { None => None, Some((k, r1)) => match dec_fixed(r1, 32) { None => None, Some((h, r2)) => match dec_u64(r2) { None => None, Some((sz, r3)) => Some(((k, h, sz), r3)) } } }
}
pub open spec fn dec_snap_entries(s: Seq<u8>, n: nat) -> Option<(Seq<SnapEntry>, Seq<u8>)>
    decreases n
{
    if n == 0 { Some((Seq::<SnapEntry>::empty(), s)) } else {
        match dec_snap_entry(s) { None => None, Some((e, rest)) => match dec_snap_entries(rest, (n - 1) as nat) { None => None, Some((es, r2)) => Some((seq![e] + es, r2)) } }
    }
}
pub open spec fn dec_index(s: Seq<u8>) -> Option<(u64, Seq<SnapEntry>)> {
    match dec_u64(s) { None => None, Some((v, r1)) => match dec_u32(r1) { None => None, Some((n, r2)) => match dec_snap_entries(r2, n as nat) { None => None, Some((es, r3)) => Some((v, es)) } } }
}
pub open spec fn ents_acc(acc: Seq<SnapEntry>, tail: Option<(Seq<SnapEntry>, Seq<u8>)>) -> Option<(Seq<SnapEntry>, Seq<u8>)> {
    match tail { None => None, Some((es, r)) => Some((acc + es, r)) }
}
/// no later entry of the list has the same key bytes (the entry that survives `insert` into a map)
pub open spec fn no_later_dup(es: Seq<SnapEntry>, i: int) -> bool { forall|j: int| i < j < es.len() ==> (#[trigger] es[j]).0 != es[i].0 }
pub open spec fn ver_of(v: Option<NonZeroU64>) -> u64 { match v { Some(x) => x.get(), None => 0 } }
