// ===== index snapshot codec model, written from the documented format (serialization.rs doc comment):
// [u64 last_persisted_version][u32 num_entries]([u32 key_len][key][32-byte hash][u64 size])*   — entries as (key, hash, size)
pub type SnapEntry = (Seq<u8>, Seq<u8>, u64);
pub open spec fn enc_entry(e: SnapEntry) -> Seq<u8> { enc_bytes(e.0) + e.1 + le64(e.2) }
pub open spec fn enc_entries(es: Seq<SnapEntry>) -> Seq<u8>
    decreases es.len()
{ if es.len() == 0 { Seq::<u8>::empty() } else { enc_entry(es[0]) + enc_entries(es.subrange(1, es.len() as int)) } }
pub open spec fn enc_index(version: u64, es: Seq<SnapEntry>) -> Seq<u8> { le64(version) + le32(es.len() as u32) + enc_entries(es) }
pub open spec fn snap_lens_ok(es: Seq<SnapEntry>) -> bool {
    es.len() <= u32::MAX && forall|i: int| 0 <= i < es.len() ==> (#[trigger] es[i]).0.len() <= u32::MAX && es[i].1.len() == 32
}
// ---- independent decoder of the documented format, returning the entry list ----
pub open spec fn dec_snap_entry(s: Seq<u8>) -> Option<(SnapEntry, Seq<u8>)> {
    match dec_bytes(s) { None => None, Some((k, r1)) => match dec_fixed(r1, 32) { None => None, Some((h, r2)) => match dec_u64(r2) { None => None, Some((sz, r3)) => Some(((k, h, sz), r3)) } } }
}
pub open spec fn dec_snap_entries(s: Seq<u8>, n: nat) -> Option<(Seq<SnapEntry>, Seq<u8>)>
    decreases n
{
    if n == 0 { Some((Seq::<SnapEntry>::empty(), s)) } else {
        match dec_snap_entry(s) { None => None, Some((e, rest)) => match dec_snap_entries(rest, (n - 1) as nat) { None => None, Some((es, r2)) => Some((seq![e] + es, r2)) } }
    }
}
pub open spec fn dec_index(s: Seq<u8>) -> Option<(u64, Seq<SnapEntry>)> {
    match dec_u64(s) { None => None, Some((v, r1)) => match dec_u32(r1) { None => None, Some((n, r2)) => match dec_snap_entries(r2, n as nat) { None => None, Some((es, r3)) => Some((v, es)) } } }
}
pub proof fn lemma_enc_entries_push(es: Seq<SnapEntry>, e: SnapEntry)
    ensures enc_entries(es.push(e)) == enc_entries(es) + enc_entry(e),
    decreases es.len(),
{
    if es.len() == 0 {
        assert(es.push(e).subrange(1, 1) =~= Seq::<SnapEntry>::empty());
        assert(enc_entries(es.push(e).subrange(1, 1)) =~= Seq::<u8>::empty());
        assert(enc_entries(es.push(e)) =~= enc_entry(e));
        assert(enc_entries(es) + enc_entry(e) =~= enc_entry(e));
    } else {
        let t = es.subrange(1, es.len() as int);
        lemma_enc_entries_push(t, e);
        assert(es.push(e).subrange(1, es.push(e).len() as int) =~= t.push(e));
        assert(enc_entries(es.push(e)) =~= enc_entry(es[0]) + (enc_entries(t) + enc_entry(e)));
        assert(enc_entries(es) + enc_entry(e) =~= enc_entry(es[0]) + (enc_entries(t) + enc_entry(e)));
    }
}
pub proof fn lemma_dec_enc_snap_entry(e: SnapEntry, rest: Seq<u8>)
    requires e.0.len() <= u32::MAX, e.1.len() == 32,
    ensures dec_snap_entry(enc_entry(e) + rest) == Some((e, rest)),
{
    hide(le64); hide(le32); hide(de64); hide(de32); hide(enc_bytes); hide(dec_bytes); hide(dec_u64); hide(dec_fixed);
    let t2 = le64(e.2) + rest;
    let t1 = e.1 + t2;
    assert(enc_entry(e) + rest =~= enc_bytes(e.0) + t1);
    lemma_dec_enc_bytes(e.0, t1);
    lemma_dec_fixed_enc(e.1, t2);
    lemma_dec_u64_enc(e.2, rest);
}
/// C16: decoding an encoded entry list yields the same list (and the rest of the input)
pub proof fn lemma_dec_enc_snap_entries(es: Seq<SnapEntry>, rest: Seq<u8>)
    requires forall|i: int| 0 <= i < es.len() ==> (#[trigger] es[i]).0.len() <= u32::MAX && es[i].1.len() == 32,
    ensures dec_snap_entries(enc_entries(es) + rest, es.len()) == Some((es, rest)),
    decreases es.len(),
{
    hide(enc_entry); hide(dec_snap_entry);
    if es.len() == 0 {
        assert(enc_entries(es) + rest =~= rest);
        assert(es =~= Seq::<SnapEntry>::empty());
    } else {
        let t = es.subrange(1, es.len() as int);
        assert(forall|i: int| 0 <= i < t.len() ==> (#[trigger] t[i]) == es[i + 1]);
        lemma_dec_enc_snap_entries(t, rest);
        lemma_dec_enc_snap_entry(es[0], enc_entries(t) + rest);
        assert(enc_entries(es) + rest =~= enc_entry(es[0]) + (enc_entries(t) + rest));
        assert(seq![es[0]] + t =~= es);
    }
}
/// C16: snapshot round trip on the documented format: the independent decoder reads back version and entries
pub proof fn lemma_snapshot_roundtrip(version: u64, es: Seq<SnapEntry>)
    requires snap_lens_ok(es),
    ensures dec_index(enc_index(version, es)) == Some((version, es)),
{
    hide(le64); hide(le32); hide(de64); hide(de32); hide(dec_u64); hide(dec_u32); hide(enc_entries); hide(dec_snap_entries);
    let t1 = le32(es.len() as u32) + enc_entries(es);
    assert(enc_index(version, es) =~= le64(version) + t1);
    lemma_dec_u64_enc(version, t1);
    lemma_dec_u32_enc(es.len() as u32, enc_entries(es));
    lemma_dec_enc_snap_entries(es, Seq::<u8>::empty());
    assert(enc_entries(es) + Seq::<u8>::empty() =~= enc_entries(es));
}
