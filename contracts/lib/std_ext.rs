// ===== assumed specifications for std items (trusted base; every line here is listed in the evidence) =====
#[verifier::external_type_specification]
#[verifier::external_body]
pub struct ExPath(std::path::Path);
#[verifier::external_type_specification]
#[verifier::external_body]
pub struct ExPathBuf(std::path::PathBuf);
#[verifier::external_type_specification]
#[verifier::external_body]
pub struct ExIoError(std::io::Error);
#[verifier::external_type_specification]
#[verifier::external_body]
pub struct ExParseIntError(std::num::ParseIntError);
#[verifier::external_type_specification]
#[verifier::external_body]
pub struct ExFile(std::fs::File);
#[verifier::external_type_specification]
pub struct ExAssertKind(core::panicking::AssertKind);

// assert_eq!/assert_ne!/assert! failing is a panic: reaching it is a proof obligation
pub assume_specification<T, U> [core::panicking::assert_failed] (_0: core::panicking::AssertKind, _1: &T, _2: &U, _3: std::option::Option<std::fmt::Arguments<'_>>) -> !
    where T: std::marker::MetaSized + std::fmt::Debug + ?Sized, U: std::marker::MetaSized + std::fmt::Debug + ?Sized,
    requires false;

pub assume_specification [std::num::NonZeroU64::saturating_add] (a: NonZeroU64, b: u64) -> (r: NonZeroU64)
    ensures r.get() == (if a.get() + b > u64::MAX { u64::MAX } else { (a.get() + b) as u64 });

pub assume_specification<T, U, F> [std::option::Option::<T>::map_or] (o: std::option::Option<T>, d: U, f: F) -> (r: U)
    where F: FnOnce(T) -> U
    requires o is Some ==> f.requires((o->0,)),
    ensures o is None ==> r == d, o is Some ==> f.ensures((o->0,), r);

pub assume_specification<T, F> [std::option::Option::<T>::is_none_or] (o: std::option::Option<T>, f: F) -> (r: bool)
    where F: FnOnce(T) -> bool + std::marker::Destruct
    requires o is Some ==> f.requires((o->0,)),
    ensures o is None ==> r, o is Some ==> f.ensures((o->0,), r);

pub assume_specification<T, P> [std::option::Option::<T>::filter] (o: std::option::Option<T>, p: P) -> (r: std::option::Option<T>)
    where P: FnOnce(&T) -> bool + std::marker::Destruct, T: std::marker::Destruct
    requires o is Some ==> p.requires((&o->0,)),
    ensures o is None ==> r is None, r is Some ==> r == o, o is Some ==> (r is Some <==> p.ensures((&o->0,), true));
/// the owned copy of a path (uninterpreted; `to_path_buf` is a function of its argument)
pub uninterp spec fn pathbuf_of(p: &Path) -> PathBuf;
pub assume_specification [std::path::Path::to_path_buf] (p: &Path) -> (r: PathBuf) ensures r == pathbuf_of(p);
pub assume_specification [str::trim] (s: &str) -> (r: &str);
pub assume_specification [str::trim_end] (s: &str) -> (r: &str);
pub assume_specification [str::trim_start] (s: &str) -> (r: &str);
pub assume_specification<T, F> [std::option::Option::<T>::is_some_and] (o: std::option::Option<T>, f: F) -> (r: bool)
    where F: FnOnce(T) -> bool + std::marker::Destruct
    requires o is Some ==> f.requires((o->0,)),
    ensures o is None ==> !r, o is Some ==> f.ensures((o->0,), r);
/// R23: `format!(..)` in expression position (message text is never part of a contract)
#[verifier::external_body]
pub fn vx_format() -> (r: String) { String::new() }
