// ===== replay model: what the WAL directory holds, decoded by the independent record reader =====
pub type Rec = (u64, Seq<u8>);
/// ids of the `<id>_index.wal` files in the database directory, ascending (what discover_segments returns)
pub uninterp spec fn disk_segment_ids(st: &SegmentStorage) -> Seq<u64>;
/// bytes of segment file `id`
pub uninterp spec fn disk_file(st: &SegmentStorage, id: u64) -> Seq<u8>;

pub open spec fn seg_ok(s: Seq<u8>) -> bool
    decreases s.len()
{
    match dec_entry(s) { EntryDec::End => true, EntryDec::Corrupt => false, EntryDec::Entry { version, payload, rest } => if rest.len() < s.len() { seg_ok(rest) } else { false } }
}
pub open spec fn seg_records(s: Seq<u8>) -> Seq<Rec>
    decreases s.len()
{
    match dec_entry(s) {
        EntryDec::Entry { version, payload, rest } => if rest.len() < s.len() { seq![(version, payload)] + seg_records(rest) } else { Seq::<Rec>::empty() },
        _ => Seq::<Rec>::empty(),
    }
}
pub open spec fn recs_upto(st: &SegmentStorage, ids: Seq<u64>, i: nat) -> Seq<Rec>
    decreases i
{ if i == 0 { Seq::<Rec>::empty() } else { recs_upto(st, ids, (i - 1) as nat) + seg_records(disk_file(st, ids[i - 1])) } }
pub open spec fn segs_ok_upto(st: &SegmentStorage, ids: Seq<u64>, i: nat) -> bool
    decreases i
{ if i == 0 { true } else { segs_ok_upto(st, ids, (i - 1) as nat) && seg_ok(disk_file(st, ids[i - 1])) } }
pub open spec fn all_records(st: &SegmentStorage) -> Seq<Rec> { recs_upto(st, disk_segment_ids(st), disk_segment_ids(st).len()) }
pub open spec fn disk_has_version(st: &SegmentStorage, v: u64) -> bool {
    exists|j: int| 0 <= j < all_records(st).len() && (#[trigger] all_records(st)[j]).0 == v
}
pub open spec fn above(cp: Option<NonZeroU64>, v: u64) -> bool { cp is None || v > cp->0.get() }
/// the records replay must apply: those above the snapshot's version, in log order
pub open spec fn above_filter(s: Seq<Rec>, cp: Option<NonZeroU64>) -> Seq<Rec>
    decreases s.len()
{
    if s.len() == 0 { Seq::<Rec>::empty() } else {
        let r = above_filter(s.drop_last(), cp);
        if above(cp, s.last().0) { r.push(s.last()) } else { r }
    }
}
pub open spec fn hi_ok(highest: Option<NonZeroU64>, cp: Option<NonZeroU64>, seen: Seq<Rec>) -> bool {
    &&& (cp is Some ==> highest is Some && highest->0.get() >= cp->0.get())
    &&& forall|j: int| 0 <= j < seen.len() ==> highest is Some && highest->0.get() >= (#[trigger] seen[j]).0
}
pub proof fn lemma_dec_entry_rest_shorter(s: Seq<u8>)
    ensures dec_entry(s) is Entry ==> dec_entry(s)->rest.len() < s.len(),
{
}
pub proof fn lemma_seg_step(s: Seq<u8>)
    ensures
        dec_entry(s) is Entry ==> seg_records(s) == seq![(dec_entry(s)->version, dec_entry(s)->payload)] + seg_records(dec_entry(s)->rest)
            && seg_ok(s) == seg_ok(dec_entry(s)->rest),
        dec_entry(s) is End ==> seg_records(s) == Seq::<Rec>::empty() && seg_ok(s),
        dec_entry(s) is Corrupt ==> !seg_ok(s),
{
    lemma_dec_entry_rest_shorter(s);
}
pub proof fn lemma_above_filter_push(s: Seq<Rec>, x: Rec, cp: Option<NonZeroU64>)
    ensures above_filter(s.push(x), cp) == (if above(cp, x.0) { above_filter(s, cp).push(x) } else { above_filter(s, cp) }),
{
    assert(s.push(x).drop_last() =~= s);
}
pub proof fn lemma_recs_upto_mono(st: &SegmentStorage, ids: Seq<u64>, i: nat, n: nat)
    requires i <= n,
    ensures recs_upto(st, ids, i).len() <= recs_upto(st, ids, n).len(),
    decreases n - i,
{
    if i < n { lemma_recs_upto_mono(st, ids, i, (n - 1) as nat); }
}
