// ===== ghost model of sequential reads from a std::fs::File (trusted) =====
#[verifier::external_type_specification]
pub struct ExErrorKind(std::io::ErrorKind);
/// bytes from the read cursor to the end of the file
pub uninterp spec fn file_rest(f: &File) -> Seq<u8>;
pub uninterp spec fn io_kind(e: &std::io::Error) -> std::io::ErrorKind;
pub assume_specification [std::io::Error::kind] (e: &std::io::Error) -> (k: std::io::ErrorKind)
    ensures k == io_kind(e);
pub assume_specification [<std::io::ErrorKind as PartialEq>::eq] (a: &std::io::ErrorKind, b: &std::io::ErrorKind) -> (r: bool)
    ensures r == (*a == *b);
#[verifier::external_body]
pub fn vx_io_error_new(kind: std::io::ErrorKind, msg: &'static str) -> (r: std::io::Error)
    ensures io_kind(&r) == kind
{ std::io::Error::new(kind, msg) }
/// Read::read_exact on a file: fills the whole buffer from the cursor or fails; a short file is UnexpectedEof
#[verifier::external_body]
pub fn vx_read_exact(f: &mut File, buf: &mut [u8]) -> (r: Result<(), std::io::Error>)
    ensures
        final(buf)@.len() == old(buf)@.len(),
        file_rest(old(f)).len() < old(buf)@.len() ==> r is Err && io_kind(&r->Err_0) == std::io::ErrorKind::UnexpectedEof,
        file_rest(old(f)).len() >= old(buf)@.len() ==> (r is Err && io_kind(&r->Err_0) != std::io::ErrorKind::UnexpectedEof)
            || (r is Ok && final(buf)@ == file_rest(old(f)).subrange(0, old(buf)@.len() as int)
                && file_rest(final(f)) == file_rest(old(f)).subrange(old(buf)@.len() as int, file_rest(old(f)).len() as int)),
{ f.read_exact(buf) }
/// `<&[u8]>::try_into::<[u8; N]>()` (R5 wrapper: the std impl's signature cannot carry an assume_specification)
#[verifier::external_body]
pub fn vx_slice_try_into<const N: usize>(s: &[u8]) -> (r: Result<[u8; N], std::array::TryFromSliceError>)
    ensures s@.len() == N ==> r is Ok && r->Ok_0@ == s@, s@.len() != N ==> r is Err,
{ s.try_into() }
#[verifier::external_type_specification]
#[verifier::external_body]
pub struct ExTryFromSliceError(std::array::TryFromSliceError);
