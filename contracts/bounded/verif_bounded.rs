//! BOUNDED stand-ins (never counted as proved): executable checks, with a stated bound, for functions that the deductive
//! verifier cannot reach (iterator adapters, `Path`, directory iteration, generic snapshot encoder). Appended to a scratch
//! copy of the current tree as `#[cfg(test)] mod verif_bounded;`. Oracles are written from the property statements.
#![allow(clippy::all, dead_code, unused)]
use std::collections::{BTreeMap, BTreeSet, HashMap};
use std::num::NonZeroU64;
use std::ops::Bound;
use std::path::PathBuf;

use crate::index::IndexStateItem;
use crate::types::{BlobHash, Config, KeyBytes, WalOp};

fn h(b: u8) -> BlobHash { BlobHash([b; 32]) }
fn cfg() -> Config { Config { scan_orphans_on_startup: false, ..Config::default() } }
fn put<K>(cas: &crate::Cas<K>, k: K, v: &[u8]) where K: KeyBytes + Clone + Eq + Ord + std::hash::Hash + std::fmt::Debug + Send + Sync + 'static {
    let mut tx = cas.put(k).unwrap(); tx.write(v).unwrap(); tx.finish().unwrap();
}

/// bound: every assignment of 4 keys to {absent, h0, h1, h2} (256 index states)
#[test]
fn bounded_recompute_stats_small_scope() {
    for code in 0..256u32 {
        let mut st = crate::index::IndexStateForWitness::<u8>::new();
        let mut sizes: HashMap<BlobHash, u64> = HashMap::new();
        for k in 0..4u8 {
            let c = (code >> (2 * k)) & 3;
            if c == 0 { continue; }
            let hash = h(c as u8); let size = 100 * c as u64 + 7;
            st.apply_logical_op(&WalOp::Put { key: k, hash, size }).unwrap();
            sizes.insert(hash, size);
        }
        st.stats.cas.unique_blobs = 999; st.stats.cas.total_bytes = 999;
        st.recompute_stats(42);
        assert_eq!(st.stats.cas.unique_blobs, sizes.len() as u64, "recompute_stats: unique_blobs for state code {code}");
        assert_eq!(st.stats.cas.total_bytes, sizes.values().sum::<u64>(), "recompute_stats: total_bytes must count each distinct content once (state code {code})");
        assert_eq!(st.stats.index.serialized_size_bytes, 42);
    }
}

/// bound: keys 0..6 present subset {0,1,2,4,5}; every pair of bounds (Included/Excluded/Unbounded) x values 0..7
#[test]
fn bounded_remove_range_bounds() {
    let kinds = |v: u8| vec![Bound::Included(v), Bound::Excluded(v), Bound::Unbounded];
    let present: Vec<u8> = vec![0, 1, 2, 4, 5];
    for sv in 0..7u8 { for ev in 0..7u8 { for s in kinds(sv) { for e in kinds(ev) {
        // BTreeMap::range panics for start > end or equal excluded bounds: callers must not do that either
        let lo = match s { Bound::Included(v) => v as i32 * 2, Bound::Excluded(v) => v as i32 * 2 + 1, Bound::Unbounded => -1 };
        let hi = match e { Bound::Included(v) => v as i32 * 2, Bound::Excluded(v) => v as i32 * 2 - 1, Bound::Unbounded => 100 };
        if lo > hi + 1 || (matches!(s, Bound::Excluded(_)) && matches!(e, Bound::Excluded(_)) && sv == ev) || (sv > ev && !matches!(s, Bound::Unbounded) && !matches!(e, Bound::Unbounded)) { continue; }
        let dir = tempfile::tempdir().unwrap();
        let cas: crate::Cas<u8> = crate::Cas::open(dir.path(), cfg()).unwrap();
        for k in &present { put(&cas, *k, &[*k % 2; 3]); } // two distinct contents shared by five keys: keys removed != blobs freed
        let model: BTreeSet<u8> = present.iter().copied().collect();
        let expect: Vec<u8> = model.range((s, e)).copied().collect();
        let n = cas.remove_range((s, e)).unwrap();
        assert_eq!(n, expect.len(), "remove_range({s:?}, {e:?}) must report the number of keys it removed");
        let left: Vec<u8> = cas.read_index_state().iter().map(|(k, _)| *k).collect();
        let want: Vec<u8> = model.iter().copied().filter(|k| !expect.contains(k)).collect();
        assert_eq!(left, want, "remove_range({s:?}, {e:?}) must remove exactly the keys in the range");
    }}}}
}

/// bound: 300 random hashes; every 3-way split of the 64 hex digits at (a, b) with a,b in 0..=8, upper/lower case, junk
#[test]
fn bounded_blob_path_decoder_total_and_bijective() {
    let mut x = 0x1234_5678_9abc_def1u64;
    let mut next = || { x ^= x << 13; x ^= x >> 7; x ^= x << 17; x };
    let mut seen: HashMap<PathBuf, BlobHash> = HashMap::new();
    for _ in 0..300 {
        let mut b = [0u8; 32]; for i in 0..32 { b[i] = next() as u8; }
        let hash = BlobHash(b);
        let p = hash.relative_path();
        assert_eq!(BlobHash::from_relative_path(&p).unwrap(), hash, "path must parse back to its hash");
        assert_eq!(BlobHash::from_relative_path(&PathBuf::from("/some/root/cas").join(&p)).unwrap(), hash);
        if let Some(o) = seen.insert(p.clone(), hash) { assert_eq!(o, hash, "two hashes share the path {p:?}"); }
        let comps: Vec<String> = p.components().map(|c| c.as_os_str().to_str().unwrap().to_string()).collect();
        assert_eq!((comps[0].len(), comps[1].len(), comps[2].len()), (2, 2, 60), "layout 2/2/60");
        let hex = hash.to_hex();
        for a in 0..=8usize { for c in 0..=8usize {
            if a + c > 64 { continue; }
            for variant in 0..3 {
                let s = match variant { 0 => hex.clone(), 1 => hex.to_uppercase(), _ => { let mut t = hex.clone().into_bytes(); t[(next() % 64) as usize] = b'z'; String::from_utf8(t).unwrap() } };
                let path = PathBuf::from(&s[..a]).join(&s[a..a + c]).join(&s[a + c..]);
                let r = std::panic::catch_unwind(|| BlobHash::from_relative_path(&path).is_ok());
                assert!(r.is_ok(), "from_relative_path panicked on {path:?}");
            }
        }}
    }
    for junk in ["", "a", "a/b", "a/b/c", "../../..", "ab/cd/ef/gh"] {
        let r = std::panic::catch_unwind(|| BlobHash::from_relative_path(std::path::Path::new(junk)).is_ok());
        assert!(r.is_ok(), "from_relative_path panicked on {junk:?}");
    }
}

/// bound: fixed key sets for u64 / i32 / String / Vec<u8> (byte-order crossings, sign change, empty key)
#[test]
fn bounded_snapshot_roundtrip_key_types() {
    use crate::serialization::{deserialize_index_state, serialize_index_state};
    fn rt<K: KeyBytes + Ord + Clone + std::fmt::Debug>(keys: Vec<K>) {
        let mut m: BTreeMap<K, IndexStateItem> = BTreeMap::new();
        for (i, k) in keys.iter().enumerate() { m.insert(k.clone(), IndexStateItem { blob_hash: h(i as u8), blob_size: i as u64 * 3 }); }
        for ver in [None, NonZeroU64::new(1), NonZeroU64::new(u64::MAX)] {
            let enc = serialize_index_state(&m, ver);
            let (dec, v2) = deserialize_index_state(&enc).unwrap_or_else(|e| panic!("snapshot of {keys:?} failed to decode: {e:?}"));
            assert_eq!(v2, ver, "snapshot version");
            let back: BTreeMap<Vec<u8>, IndexStateItem> = m.iter().map(|(k, it)| (k.to_key_bytes_owned(), *it)).collect();
            assert_eq!(dec, back, "snapshot of {keys:?} does not round-trip");
            for (kb, _) in dec.iter() { assert!(K::from_key_bytes(kb).is_some(), "decoded key bytes must decode to a key"); }
        }
    }
    rt::<u64>(vec![0, 1, 255, 256, 257, 65_536, u64::MAX]);
    rt::<i32>(vec![-1, 0, 1, i32::MIN, i32::MAX, 256]);
    rt::<String>(vec!["".into(), "a".into(), "ab".into(), "é".into(), "zzzz".into()]);
    rt::<Vec<u8>>(vec![vec![], vec![0], vec![0, 0], vec![255], vec![1, 2, 3]]);
    rt::<[u8; 4]>(vec![[0, 0, 0, 1], [1, 0, 0, 0], [255; 4]]);
    // through the store: integer keys, checkpoint, reopen
    let dir = tempfile::tempdir().unwrap();
    { let cas: crate::Cas<u64> = crate::Cas::open(dir.path(), cfg()).unwrap(); for k in [1u64, 256, 3, 70_000] { put(&cas, k, &k.to_le_bytes()); } cas.checkpoint().unwrap(); }
    let cas: crate::Cas<u64> = crate::Cas::open(dir.path(), cfg()).unwrap_or_else(|e| panic!("checkpointed integer-keyed store failed to reopen: {e:?}"));
    let ks: Vec<u64> = cas.read_index_state().iter().map(|(k, _)| *k).collect();
    assert_eq!(ks, vec![1, 3, 256, 70_000], "keys after reopen, ascending key order");
}

/// bound: String / Vec<u8> key encodings on fixed samples (the integer and array types are proved by Kani)
#[test]
fn bounded_key_bytes_string_vec() {
    for s in ["", "a", "héllo", "\u{10FFFF}", "with space"] {
        let k = s.to_string();
        assert_eq!(String::from_key_bytes(&k.to_key_bytes_owned()), Some(k.clone()));
        assert_eq!(k.to_key_bytes().as_ref() as &[u8], &k.to_key_bytes_owned()[..]);
    }
    assert_eq!(String::from_key_bytes(&[0xff, 0xfe]), None, "invalid UTF-8 is not a String key");
    for v in [vec![], vec![0u8], vec![1, 2, 3], vec![255; 40]] {
        assert_eq!(Vec::<u8>::from_key_bytes(&v.to_key_bytes_owned()), Some(v.clone()));
    }
}

/// bound: one constructed store with one instance of every category the scan reports
#[test]
fn bounded_scan_orphans_exact_and_cleanup() {
    let dir = tempfile::tempdir().unwrap();
    let (h_shared, h_single, h_lost, h_bad, h_tail);
    {
        let cas: crate::Cas<String> = crate::Cas::open(dir.path(), cfg()).unwrap();
        put(&cas, "a".into(), b"shared content"); put(&cas, "b".into(), b"shared content");
        put(&cas, "c".into(), b"single"); put(&cas, "d".into(), b"will be lost"); put(&cas, "e".into(), b"will be corrupted");
        put(&cas, "empty".into(), b""); put(&cas, "f".into(), b"will get a tail appended");
        cas.checkpoint().unwrap();
        let st = cas.read_index_state();
        h_shared = st.get_item(&"a".to_string()).unwrap().blob_hash; h_single = st.get_item(&"c".to_string()).unwrap().blob_hash;
        h_lost = st.get_item(&"d".to_string()).unwrap().blob_hash; h_bad = st.get_item(&"e".to_string()).unwrap().blob_hash;
        h_tail = st.get_item(&"f".to_string()).unwrap().blob_hash;
    }
    let casdir = dir.path().join("cas");
    let orphan = crate::calculate_blob_hash(b"nobody references me");
    let op = casdir.join(orphan.relative_path()); std::fs::create_dir_all(op.parent().unwrap()).unwrap(); std::fs::write(&op, b"nobody references me").unwrap();
    let invalid1 = casdir.join("stray-top-level-file"); std::fs::write(&invalid1, b"x").unwrap();
    let invalid2 = op.parent().unwrap().join("not-a-hash"); std::fs::write(&invalid2, b"x").unwrap();
    std::fs::remove_file(casdir.join(h_lost.relative_path())).unwrap();
    std::fs::write(casdir.join(h_bad.relative_path()), b"same length bytes!").unwrap();
    { use std::io::Write; let mut f = std::fs::OpenOptions::new().append(true).open(casdir.join(h_tail.relative_path())).unwrap(); f.write_all(b" + extra bytes behind an intact prefix").unwrap(); }
    let leftover = dir.path().join("staging").join("leftover.tmp"); std::fs::write(&leftover, b"partial").unwrap();
    // a leftover with the name shape the crate's own staging files have (tempfile's default prefix is `.tmp`)
    let leftover2 = dir.path().join("staging").join(".tmpA1b2C3"); std::fs::write(&leftover2, b"partial too").unwrap();
    // a shard directory of a referenced blob that is a symlink to a directory elsewhere is still a directory
    let shard = casdir.join(h_single.relative_path()).parent().unwrap().to_path_buf();
    if !shard.starts_with(op.parent().unwrap()) && !op.parent().unwrap().starts_with(&shard) {
        let elsewhere = dir.path().join("moved-shard");
        std::fs::rename(&shard, &elsewhere).unwrap();
        std::os::unix::fs::symlink(&elsewhere, &shard).unwrap();
    }
    let c2 = Config { scan_orphans_on_startup: true, verify_blob_integrity: true, fail_on_integrity_errors: false, ..Config::default() };
    let (cas, stats) = crate::Cas::<String>::open_with_recover(dir.path(), c2).unwrap();
    let stats = stats.unwrap();
    assert_eq!(stats.orphaned_blobs, vec![orphan], "orphans = exactly the unreferenced CAS files");
    let mut inv = stats.invalid_files.clone(); inv.sort(); let mut want = vec![invalid1.clone(), invalid2.clone()]; want.sort();
    assert_eq!(inv, want, "invalid files = exactly the stray non-blob files");
    assert_eq!(stats.missing_blobs, vec![h_lost], "missing = exactly the referenced-but-absent blobs");
    let mut cb = stats.corrupted_blobs.clone(); cb.sort(); let mut wcb = vec![h_bad, h_tail]; wcb.sort();
    assert_eq!(cb, wcb, "corrupted = exactly the referenced blobs whose bytes or size do not match (overwritten; tail appended)");
    let mut sf = stats.staging_files.clone(); sf.sort(); let mut wsf = vec![leftover.clone(), leftover2.clone()]; wsf.sort();
    assert_eq!(sf, wsf, "leftover staging files = exactly the files under staging/");
    let res = stats.delete_orphans().unwrap();
    assert!(res.errors.is_empty(), "{:?}", res.errors);
    assert!(!op.exists() && !invalid1.exists() && !invalid2.exists() && !leftover.exists() && !leftover2.exists(), "clean-up removes exactly the reported garbage");
    assert!(casdir.join(h_shared.relative_path()).exists() && casdir.join(h_single.relative_path()).exists(), "clean-up never removes a referenced blob");
    assert_eq!(cas.get(&"a".to_string()).unwrap().unwrap(), bytes::Bytes::from_static(b"shared content"));
    assert_eq!(cas.get(&"empty".to_string()).unwrap().unwrap().len(), 0, "the blob of an empty value is a referenced blob, not garbage");
}

/// bound: one database root whose name is not valid UTF-8
#[test]
fn bounded_cas_path_under_non_utf8_root() {
    use std::os::unix::ffi::OsStringExt;
    let base = tempfile::tempdir().unwrap();
    let root = base.path().join(std::ffi::OsString::from_vec(b"db-\xff\xfe-root".to_vec()));
    let paths = crate::paths::DbPaths::new(root.clone());
    let hash = h(0xab);
    let p = paths.cas_file_path(&hash);
    assert!(p.starts_with(root.join("cas")), "blob path must be under <db_root>/cas");
    assert!(p.ends_with(hash.relative_path()), "blob path must end with the hash-derived relative path");
}

/// bound: 24 chunkings of contents up to 12 MiB with chunk sizes {0,1,7,4095..8193,64Ki,1Mi,4Mi,5Mi} in mixed orders
#[test]
fn bounded_chunked_write_matches_whole() {
    let dir = tempfile::tempdir().unwrap();
    let cas: crate::Cas<u32> = crate::Cas::open(dir.path(), cfg()).unwrap();
    let plans: Vec<Vec<usize>> = vec![
        vec![], vec![0], vec![1], vec![0, 1, 0], vec![7, 4095, 4096, 4097], vec![8191, 8192, 8193], vec![8192, 1], vec![1, 8192],
        vec![65_536, 3, 65_536], vec![1 << 20, 5, 1 << 20], vec![5, 4 << 20, 9], vec![4 << 20, 4 << 20], vec![100, 5 << 20, 100, 1 << 20, 1], vec![(4 << 20) - 1, 1, (4 << 20) + 1],
        // whole blobs of round sizes in one call, and round totals reached in two calls
        vec![4096], vec![8192], vec![65_536], vec![1 << 20], vec![2 << 20], vec![4 << 20], vec![8 << 20], vec![1, (4 << 20) - 1], vec![(1 << 20) - 1, 1], vec![4 << 20, 4 << 20, 4 << 20],
    ];
    for (i, plan) in plans.iter().enumerate() {
        let total: usize = plan.iter().sum();
        let content: Vec<u8> = (0..total).map(|j| (j as u64).wrapping_mul(0x9E37_79B9).rotate_left(13) as u8 ^ i as u8).collect();
        let mut tx = cas.put(i as u32).unwrap();
        let mut off = 0;
        for n in plan { tx.write(&content[off..off + n]).unwrap(); off += n; }
        tx.finish().unwrap();
        let st = cas.read_index_state();
        let item = st.get_item(&(i as u32)).unwrap(); drop(st);
        let want = crate::calculate_blob_hash(&content);
        assert_eq!(item.blob_hash, want, "chunking {plan:?}: committed hash must be BLAKE3 of the whole content");
        assert_eq!(item.blob_size, total as u64, "chunking {plan:?}: recorded size");
        let path = dir.path().join("cas").join(want.relative_path());
        let on_disk = std::fs::read(&path).unwrap_or_else(|e| panic!("chunking {plan:?}: blob not at its hash path: {e}"));
        assert!(on_disk == content, "chunking {plan:?}: file bytes differ from the written content (len {} vs {})", on_disk.len(), content.len());
        assert!(cas.get(&(i as u32)).unwrap().unwrap()[..] == content[..], "chunking {plan:?}: get() differs from the written content");
    }
    // the same chunkings (totals up to 2 MiB) with degenerate byte patterns: all zero, all 0xFF, a zero-filled last chunk, a
    // zero-filled first chunk, zero-filled chunks alternating with data (content identity must not depend on the byte values)
    for (i, plan) in plans.iter().enumerate() {
        let total: usize = plan.iter().sum();
        if total > (2 << 20) { continue; }
        for shape in 0..5u32 {
            let mut content: Vec<u8> = (0..total).map(|j| ((j as u64).wrapping_mul(0x9E37_79B9).rotate_left(11) as u8) | 1).collect();
            let mut off = 0;
            for (ci, n) in plan.iter().enumerate() {
                let zero = match shape { 0 => true, 1 => false, 2 => ci + 1 == plan.len(), 3 => ci == 0, _ => ci % 2 == 1 };
                if zero { for b in &mut content[off..off + n] { *b = 0; } }
                if shape == 1 { for b in &mut content[off..off + n] { *b = 0xFF; } }
                off += n;
            }
            let key = 1000 + shape * 100 + i as u32;
            let mut tx = cas.put(key).unwrap();
            let mut off = 0;
            for n in plan { tx.write(&content[off..off + n]).unwrap(); off += n; }
            tx.finish().unwrap();
            let want = crate::calculate_blob_hash(&content);
            let st = cas.read_index_state();
            let item = st.get_item(&key).unwrap(); drop(st);
            assert_eq!(item.blob_hash, want, "chunking {plan:?} pattern {shape}: committed hash must be BLAKE3 of the whole content");
            assert_eq!(item.blob_size, total as u64, "chunking {plan:?} pattern {shape}: recorded size");
            let path = dir.path().join("cas").join(want.relative_path());
            let on_disk = std::fs::read(&path).unwrap_or_else(|e| panic!("chunking {plan:?} pattern {shape}: blob not at its hash path: {e}"));
            assert!(on_disk == content, "chunking {plan:?} pattern {shape}: file bytes differ from the written content (len {} vs {})", on_disk.len(), content.len());
            assert!(cas.get(&key).unwrap().unwrap()[..] == content[..], "chunking {plan:?} pattern {shape}: get() differs from the written content");
        }
    }
}

/// bound: 64 random hashes x every single-byte difference position (32) + equal copies
#[test]
fn bounded_blob_hash_eq_is_bytewise() {
    use std::hash::{Hash, Hasher};
    let mut x = 0xfeed_beef_1234_5678u64;
    let mut next = || { x ^= x << 13; x ^= x >> 7; x ^= x << 17; x };
    for _ in 0..64 {
        let mut b = [0u8; 32]; for i in 0..32 { b[i] = next() as u8; }
        let a = BlobHash(b);
        assert!(a == BlobHash(b), "equal bytes must compare equal");
        for i in 0..32 {
            let mut c = b; c[i] ^= 1 << (next() % 8);
            assert!(a != BlobHash(c), "hashes differing in byte {i} compare equal");
            assert!(a.cmp(&BlobHash(c)) != std::cmp::Ordering::Equal || true);
        }
        let hh = |v: &BlobHash| { let mut s = std::collections::hash_map::DefaultHasher::new(); v.hash(&mut s); s.finish() };
        assert_eq!(hh(&a), hh(&BlobHash(b)));
    }
}

/// bound: segment ids {0,1,2,9,10,11,99,100,101,1000, 18446744073709551615} in shuffled creation order + 6 non-segment names
#[test]
fn bounded_discover_segments_numeric_order() {
    let dir = tempfile::tempdir().unwrap();
    let paths = crate::paths::DbPaths::new(dir.path().to_path_buf());
    let ids: Vec<u64> = vec![100, 9, 1000, 0, 11, 2, u64::MAX, 10, 99, 1, 101];
    for id in &ids { std::fs::write(paths.wal_path_for_segment(*id), b"").unwrap(); }
    for junk in ["index", "x_index.wal", "12_index.wal.bak", "-3_index.wal", "7_index", "LOCK"] { std::fs::write(dir.path().join(junk), b"").unwrap(); }
    std::fs::create_dir(dir.path().join("cas")).unwrap();
    let st = crate::wal::storage_for_verif(paths.clone());
    let segs = st.discover_segments().unwrap();
    let got: Vec<u64> = segs.iter().map(|s| s.id).collect();
    let mut want = ids.clone(); want.sort();
    assert_eq!(got, want, "discover_segments must return exactly the segment files, in ascending NUMERIC id order");
    for s in &segs { assert_eq!(s.path, paths.wal_path_for_segment(s.id)); }
}

/// bound: batches of N distinct blobs for N in {1, 2, 3, 5, 255, 256, 257, 258, 259} deleted by one remove_range each
#[test]
fn bounded_bulk_delete_reclaims_every_blob() {
    fn count_files(p: &std::path::Path) -> usize {
        let mut n = 0;
        if let Ok(rd) = std::fs::read_dir(p) { for e in rd.flatten() { let p = e.path(); if p.is_dir() { n += count_files(&p); } else { n += 1; } } }
        n
    }
    let dir = tempfile::tempdir().unwrap();
    let cas: crate::Cas<u32> = crate::Cas::open(dir.path(), cfg()).unwrap();
    put(&cas, 1_000_000, b"keeper");
    for n in [1u32, 2, 3, 5, 255, 256, 257, 258, 259] {
        for k in 0..n { put(&cas, k, format!("blob {n} / {k}").as_bytes()); }
        assert_eq!(count_files(&dir.path().join("cas")), n as usize + 1, "one file per distinct content");
        let removed = cas.remove_range(0..n).unwrap();
        assert_eq!(removed, n as usize);
        assert_eq!(count_files(&dir.path().join("cas")), 1, "after removing a batch of {n} keys every blob of the batch must be gone");
        assert_eq!(count_files(&dir.path().join("staging")), 0, "staging must be empty");
    }
}

/// bound: one blob of 64 KiB + 123 bytes, two/three overlapping readers with interleaved partial reads and range reads
#[test]
fn bounded_overlapping_readers_stream_whole_blob() {
    use std::io::Read;
    let dir = tempfile::tempdir().unwrap();
    let cas: crate::Cas<u8> = crate::Cas::open(dir.path(), cfg()).unwrap();
    let content: Vec<u8> = (0..(65_536 + 123)).map(|i: usize| (i.wrapping_mul(31) >> 3) as u8).collect();
    put(&cas, 1, &content);
    put(&cas, 2, b"another blob");
    let mut a = cas.get_reader(&1).unwrap().unwrap();
    let mut got_a = vec![0u8; 10_000];
    a.read_exact(&mut got_a).unwrap();
    let mut b = cas.get_reader(&1).unwrap().unwrap();
    let mut got_b = Vec::new(); b.read_to_end(&mut got_b).unwrap();
    assert!(got_b == content, "reader B (opened while reader A was half way) must stream exactly the content: {} vs {}", got_b.len(), content.len());
    assert_eq!(&cas.get_range(&1, 100, 20_100).unwrap().unwrap()[..], &content[100..20_100]);
    let mut c = cas.get_reader(&1).unwrap().unwrap();
    let mut first_c = vec![0u8; 5]; c.read_exact(&mut first_c).unwrap();
    a.read_to_end(&mut got_a).unwrap();
    assert!(got_a == content, "reader A must stream exactly L bytes of the content ({} vs {})", got_a.len(), content.len());
    let mut rest_c = Vec::new(); c.read_to_end(&mut rest_c).unwrap(); first_c.extend(rest_c);
    assert!(first_c == content, "reader C must stream exactly the content");
    assert_eq!(cas.get_size(&1).unwrap(), Some(content.len() as u64));
    assert_eq!(&cas.get(&2).unwrap().unwrap()[..], b"another blob");
    // the reader is a BufReader: consumers of the BufRead interface must see all L bytes too (small and page-sized blobs)
    use std::io::BufRead;
    for (i, len) in [0usize, 1, 2, 17, 40, 511, 512, 4095, 4096, 4097, 8191, 8192, 8193].iter().enumerate() {
        let k = 10 + i as u8;
        let body: Vec<u8> = (0..*len).map(|j| if j % 7 == 6 { b'\n' } else { b'a' + (j % 23) as u8 }).collect();
        put(&cas, k, &body);
        let mut r = cas.get_reader(&k).unwrap().unwrap();
        let mut via_fill = Vec::new();
        loop { let buf = r.fill_buf().unwrap(); if buf.is_empty() { break; } let n = buf.len(); via_fill.extend_from_slice(buf); r.consume(n); }
        assert!(via_fill == body, "get_reader of a {len}-byte blob: fill_buf/consume yielded {} bytes", via_fill.len());
        let lines: Vec<Vec<u8>> = cas.get_reader(&k).unwrap().unwrap().split(b'\n').map(|l| l.unwrap()).collect();
        let want: Vec<Vec<u8>> = if body.is_empty() { vec![] } else { let mut w: Vec<Vec<u8>> = body.split(|b| *b == b'\n').map(|l| l.to_vec()).collect(); if body.ends_with(b"\n") { w.pop(); } w };
        assert!(lines == want, "get_reader of a {len}-byte blob: split() lost content");
    }
}

/// bound: 3 scenarios - an abandoned transaction with written bytes before a put; two transactions written interleaved;
/// a failed-then-retried put (same handle)
#[test]
fn bounded_transactions_are_independent() {
    let dir = tempfile::tempdir().unwrap();
    let cas: crate::Cas<u8> = crate::Cas::open(dir.path(), cfg()).unwrap();
    let check = |k: u8, content: &[u8], what: &str| {
        let st = cas.read_index_state(); let item = st.get_item(&k).unwrap(); drop(st);
        assert_eq!(item.blob_hash, crate::calculate_blob_hash(content), "{what}: committed hash != BLAKE3(content)");
        assert_eq!(item.blob_size, content.len() as u64, "{what}: size");
        assert!(cas.get(&k).unwrap().unwrap()[..] == content[..], "{what}: content");
    };
    put(&cas, 1, b"first");
    check(1, b"first", "before any abandoned transaction");
    { let mut t = cas.put(9).unwrap(); t.write(b"abandoned bytes that must not leak anywhere").unwrap(); }
    assert!(cas.get(&9).unwrap().is_none(), "abandoned transaction must not create the key");
    put(&cas, 2, b"second");
    check(2, b"second", "put after an abandoned transaction");
    let mut t1 = cas.put(3).unwrap(); let mut t2 = cas.put(4).unwrap();
    t1.write(b"aaa").unwrap(); t2.write(b"bbbb").unwrap(); t1.write(b"AAA").unwrap(); t2.write(b"BBBB").unwrap();
    t2.finish().unwrap(); t1.finish().unwrap();
    check(3, b"aaaAAA", "interleaved transaction 1"); check(4, b"bbbbBBBB", "interleaved transaction 2");
    { let t = cas.put(5).unwrap(); drop(t); }
    put(&cas, 5, b"");
    check(5, b"", "empty blob after an empty abandoned transaction");
    let staging: Vec<_> = std::fs::read_dir(dir.path().join("staging")).unwrap().collect();
    assert!(staging.is_empty(), "staging must be empty when nothing is in flight");
}

/// bound: one snapshot written with a byte-string key that is not valid UTF-8, reopened with String keys
#[test]
fn bounded_reopen_with_undecodable_snapshot_key() {
    let dir = tempfile::tempdir().unwrap();
    {
        let cas: crate::Cas<Vec<u8>> = crate::Cas::open(dir.path(), cfg()).unwrap();
        put(&cas, b"good".to_vec(), b"content one");
        put(&cas, vec![0xff, 0xfe, 0x00], b"content two");
        cas.checkpoint().unwrap();
    }
    match crate::Cas::<String>::open(dir.path(), cfg()) {
        Err(_) => {} // refusing to open is the behaviour of a total decoder that reports the bad key
        Ok(cas) => {
            let st = cas.read_index_state();
            let keys: Vec<String> = st.iter().map(|(k, _)| k.clone()).collect();
            let referenced: BTreeSet<BlobHash> = st.iter().map(|(_, it)| it.blob_hash).collect();
            let known: BTreeSet<BlobHash> = st.known_blobs().map(|(h, _)| *h).collect();
            assert_eq!(known, referenced, "after reopen the refcount table must account exactly for the keys exposed ({keys:?})");
        }
    }
}

/// bound: one store; a second open is attempted after each of 6 kinds of activity while the first handle is alive
#[test]
fn bounded_dirlock_held_through_operations() {
    let dir = tempfile::tempdir().unwrap();
    let c2 = Config { scan_orphans_on_startup: true, ..Config::default() };
    { let cas: crate::Cas<u8> = crate::Cas::open(dir.path(), cfg()).unwrap(); put(&cas, 1, b"x"); }
    std::fs::write(dir.path().join("staging").join("old.tmp"), b"leftover").unwrap();
    let (cas, stats) = crate::Cas::<u8>::open_with_recover(dir.path(), c2).unwrap();
    let second_open_refused = |when: &str| {
        match crate::Cas::<u8>::open(dir.path(), cfg()) {
            Err(_) => {}
            Ok(_) => panic!("a second live handle could be opened on an owned directory ({when})"),
        }
    };
    second_open_refused("right after open");
    put(&cas, 2, b"y"); second_open_refused("after a put");
    cas.checkpoint().unwrap(); second_open_refused("after a checkpoint");
    let stats = stats.unwrap();
    let res = stats.delete_orphans().unwrap(); assert!(res.errors.is_empty());
    second_open_refused("after orphan clean-up");
    cas.remove_range(0u8..=255).unwrap(); second_open_refused("after remove_range");
    let clone = cas.clone(); drop(cas); second_open_refused("after dropping one of two handles");
    drop(stats); second_open_refused("while a clone is still alive");
    drop(clone);
    let again = crate::Cas::<u8>::open(dir.path(), cfg());
    assert!(again.is_ok(), "once every handle is gone the directory can be opened again");
    assert_eq!(crate::paths::DbPaths::new(dir.path().to_path_buf()).lockfile_path(), dir.path().join("LOCK"), "documented layout: <db_root>/LOCK");
}

/// bound: exhaustive for u8/i8/u16/i16; 20,000 pseudo-random + boundary values for the wider integer types and [u8; N]
/// (the Kani harnesses of the thorough tier prove these for the full domain)
#[test]
fn bounded_key_bytes_integers() {
    fn one<K: KeyBytes + PartialEq + std::fmt::Debug + Clone>(k: K, len: usize) {
        let owned = k.to_key_bytes_owned();
        assert_eq!(owned.len(), len, "encoded length of {k:?}");
        assert_eq!(k.to_key_bytes().as_ref() as &[u8], &owned[..], "borrowed and owned encodings of {k:?} differ");
        assert_eq!(K::from_key_bytes(&owned), Some(k.clone()), "decode(encode({k:?}))");
        let mut longer = owned.clone(); longer.push(0);
        assert_eq!(K::from_key_bytes(&longer), None, "a longer byte string must not decode for a fixed-size key");
        if len > 0 { assert_eq!(K::from_key_bytes(&owned[..len - 1]), None, "a shorter byte string must not decode"); }
    }
    for v in 0..=u8::MAX { one(v, 1); one(v as i8, 1); }
    for v in 0..=u16::MAX { one(v, 2); one(v as i16, 2); }
    let mut x = 0x243F_6A88_85A3_08D3u64;
    let mut next = || { x ^= x << 13; x ^= x >> 7; x ^= x << 17; x };
    for i in 0..20_000u32 {
        let a = next(); let b = next();
        let w = ((a as u128) << 64) | b as u128;
        let (v32, v64, v128) = match i { 0 => (0, 0, 0), 1 => (u32::MAX, u64::MAX, u128::MAX), 2 => (1 << 31, 1 << 63, 1 << 127), 3 => (255, 255, 255), 4 => (256, 256, 256), _ => (a as u32, a, w) };
        one(v32, 4); one(v32 as i32, 4); one(v64, 8); one(v64 as i64, 8); one(v128, 16); one(v128 as i128, 16);
        let mut arr16 = [0u8; 16]; arr16.copy_from_slice(&w.to_le_bytes()); one(arr16, 16);
        let mut arr32 = [0u8; 32]; arr32[..16].copy_from_slice(&w.to_be_bytes()); arr32[16..].copy_from_slice(&w.to_le_bytes()); one(arr32, 32);
    }
    one([0u8; 0], 0); one([7u8; 1], 1);
    // distinct keys have distinct encodings (injectivity on a sample): sort by encoding and compare neighbours
    let mut encs: Vec<(Vec<u8>, u64)> = (0..5000).map(|_| { let v = next() % 100_000; (v.to_key_bytes_owned(), v) }).collect();
    encs.sort();
    for w in encs.windows(2) { if w[0].0 == w[1].0 { assert_eq!(w[0].1, w[1].1, "two different u64 keys share an encoding"); } }
}

/// bound: one store with a stray unix socket, a stray symlink to a directory at blob level and a regular stray file
#[test]
fn bounded_cleanup_removes_non_regular_strays() {
    use std::os::unix::net::UnixListener;
    let dir = tempfile::tempdir().unwrap();
    let elsewhere = tempfile::tempdir().unwrap();
    let shard_dir = {
        let cas: crate::Cas<String> = crate::Cas::open(dir.path(), cfg()).unwrap();
        put(&cas, "live".to_string(), b"live data");
        let hash = cas.read_index_state().get_item(&"live".to_string()).unwrap().blob_hash;
        dir.path().join("cas").join(hash.relative_path()).parent().unwrap().to_path_buf()
    };
    let socket_path = shard_dir.join("agent.sock");
    drop(UnixListener::bind(&socket_path).unwrap());
    let link_path = shard_dir.join("backup");
    std::os::unix::fs::symlink(elsewhere.path(), &link_path).unwrap();
    let regular_path = dir.path().join("cas").join("notes.txt");
    std::fs::write(&regular_path, b"stray").unwrap();
    let c2 = Config { scan_orphans_on_startup: true, ..Config::default() };
    {
        let (cas, stats) = crate::Cas::<String>::open_with_recover(dir.path(), c2.clone()).unwrap();
        let stats = stats.unwrap();
        let mut reported = stats.invalid_files.clone(); reported.sort();
        let mut expected = vec![socket_path.clone(), link_path.clone(), regular_path.clone()]; expected.sort();
        assert_eq!(reported, expected, "the scan reports every stray entry as invalid");
        let res = stats.delete_orphans().unwrap();
        assert!(res.errors.is_empty(), "{:?}", res.errors);
        for p in [&socket_path, &link_path, &regular_path] { assert!(std::fs::symlink_metadata(p).is_err(), "clean-up must remove the reported invalid entry {p:?}"); }
        assert!(elsewhere.path().is_dir(), "the target of a stray symlink is not touched");
        assert_eq!(&cas.get(&"live".to_string()).unwrap().unwrap()[..], b"live data");
    }
    let (_cas, stats) = crate::Cas::<String>::open_with_recover(dir.path(), c2).unwrap();
    let stats = stats.unwrap();
    assert!(stats.invalid_files.is_empty() && stats.orphaned_blobs.is_empty() && stats.missing_blobs.is_empty(), "a second scan after clean-up is clean");
}

/// bound: 2,060 keys with pairwise distinct contents (twice the size of any plausible batch), 12 blobs removed behind the store's back
#[test]
fn bounded_scan_exact_for_large_index() {
    let dir = tempfile::tempdir().unwrap();
    let n = 2060u32;
    let mut hashes = Vec::new();
    {
        let cas: crate::Cas<u32> = crate::Cas::open(dir.path(), Config { scan_orphans_on_startup: false, sync_mode: crate::types::SyncMode::Async, ..Config::default() }).unwrap();
        for k in 0..n { put(&cas, k, format!("unique content of key {k}").as_bytes()); }
        cas.checkpoint().unwrap();
        let st = cas.read_index_state();
        for (k, it) in st.iter() { hashes.push((*k, it.blob_hash)); }
    }
    let c2 = Config { scan_orphans_on_startup: true, fail_on_integrity_errors: false, ..Config::default() };
    {
        let (_cas, stats) = crate::Cas::<u32>::open_with_recover(dir.path(), c2.clone()).unwrap();
        let stats = stats.unwrap();
        assert!(stats.orphaned_blobs.is_empty(), "referenced blobs reported as orphans: {:?}", stats.orphaned_blobs);
        assert!(stats.missing_blobs.is_empty());
        assert_eq!(stats.total_blobs, n as usize);
    }
    let victims: Vec<BlobHash> = [0usize, 1, 511, 512, 1023, 1024, 1025, 2047, 2048, 2049, 2058, 2059].iter().map(|i| hashes[*i].1).collect();
    for h in &victims { std::fs::remove_file(dir.path().join("cas").join(h.relative_path())).unwrap(); }
    let (_cas, stats) = crate::Cas::<u32>::open_with_recover(dir.path(), c2).unwrap();
    let mut missing = stats.unwrap().missing_blobs.clone(); missing.sort();
    let mut want = victims.clone(); want.sort();
    assert_eq!(missing, want, "missing = exactly the referenced blobs whose files are gone");
}

/// bound: blobs whose hashes fall on neighbouring shard boundaries ((x,ff),(x+1,00)), (00,00), (ff,ff), and two in one shard
#[test]
fn bounded_cas_files_named_after_their_bytes_on_shard_boundaries() {
    fn find(pred: impl Fn(&[u8; 32]) -> bool, salt: &str) -> Vec<u8> {
        for i in 0u64.. { let c = format!("{salt}-{i}").into_bytes(); let h = crate::calculate_blob_hash(&c); if pred(&h.0) { return c; } }
        unreachable!()
    }
    let dir = tempfile::tempdir().unwrap();
    let cas: crate::Cas<u32> = crate::Cas::open(dir.path(), cfg()).unwrap();
    let a = find(|h| h[1] == 0xff && h[0] < 0xff, "a");
    let x = crate::calculate_blob_hash(&a).0[0];
    let b = find(|h| h[0] == x + 1 && h[1] == 0x00, "b");
    let c = find(|h| h[0] == x && h[1] == 0xfe, "c");
    let d = find(|h| h[0] == x && h[1] == 0xff, "d2");
    let contents = vec![a, b, c, d, b"plain".to_vec()];
    for (i, c) in contents.iter().enumerate() { put(&cas, i as u32, c); }
    for (i, c) in contents.iter().enumerate() { assert!(cas.get(&(i as u32)).unwrap().unwrap()[..] == c[..]); }
    fn walk(p: &std::path::Path, root: &std::path::Path, n: &mut usize) {
        for e in std::fs::read_dir(p).unwrap().flatten() {
            let p = e.path();
            if p.is_dir() { walk(&p, root, n); } else {
                let bytes = std::fs::read(&p).unwrap();
                let want = root.join(crate::calculate_blob_hash(&bytes).relative_path());
                assert_eq!(p, want, "a file under cas/ must be named after the BLAKE3 of its bytes");
                *n += 1;
            }
        }
    }
    let mut n = 0; let root = dir.path().join("cas");
    walk(&root, &root, &mut n);
    assert_eq!(n, contents.len(), "one file per distinct content");
}

// ---- single-fault containment (C14): one failing write(2), injected with RLIMIT_FSIZE in a child process (this test binary
// re-executed; resource limits are per process). EFBIG is a clean failure: nothing is written. ----
const FAULT_ENV: &str = "VERIF_BOUNDED_FAULT_CHILD";
fn fault_cfg() -> Config { Config { num_ops_per_wal: NonZeroU64::new(1000).unwrap(), scan_orphans_on_startup: false, ..Config::default() } }
fn set_fsize_soft_limit(limit: libc::rlim_t) -> libc::rlim_t {
    let mut rl = libc::rlimit { rlim_cur: 0, rlim_max: 0 };
    assert_eq!(unsafe { libc::getrlimit(libc::RLIMIT_FSIZE, &mut rl) }, 0);
    let old = rl.rlim_cur; rl.rlim_cur = limit;
    assert_eq!(unsafe { libc::setrlimit(libc::RLIMIT_FSIZE, &rl) }, 0);
    old
}
fn sput(cas: &crate::Cas<String>, k: &str, v: &[u8]) -> Result<(), String> {
    let mut tx = cas.put(k.to_string()).map_err(|e| format!("{e:?}"))?;
    tx.write(v).map_err(|e| format!("{e:?}"))?;
    tx.finish().map_err(|e| format!("{e:?}"))
}
fn sget(cas: &crate::Cas<String>, k: &str) -> Option<Vec<u8>> { cas.get(&k.to_string()).unwrap().map(|b| b.to_vec()) }
fn fault_child(spec: &str) {
    unsafe { libc::signal(libc::SIGXFSZ, libc::SIG_IGN); }
    let (scenario, db) = spec.split_once(':').unwrap();
    let db = std::path::Path::new(db);
    let cas = crate::Cas::<String>::open(db, fault_cfg()).unwrap();
    if scenario == "snapshot0" {
        // a brand-new store: no snapshot exists yet when the first checkpoint hits the fault
        sput(&cas, "key_a", b"value of a").unwrap(); sput(&cas, "key_b", b"value of b").unwrap();
    }
    assert_eq!(sget(&cas, "key_a").as_deref(), Some(&b"value of a"[..]));
    sput(&cas, "key_c", b"value of c").unwrap();
    sput(&cas, "key_d", b"value of d").unwrap();
    match scenario {
        "wal" => { // the next write to the active WAL segment fails, nothing else does
            let len = std::fs::metadata(db.join("0_index.wal")).unwrap().len();
            let old = set_fsize_soft_limit(len as libc::rlim_t);
            let r = sput(&cas, "key_e", b"e");
            set_fsize_soft_limit(old);
            assert!(r.is_err(), "the injected WAL write error must surface as an error of put(key_e)");
        }
        "snapshot" | "snapshot2" | "snapshot0" => { // every write fails while the snapshot is being written
            if scenario == "snapshot2" { cas.checkpoint().unwrap(); sput(&cas, "key_g", b"value of g").unwrap(); }
            let old = set_fsize_soft_limit(0);
            let r = cas.checkpoint();
            set_fsize_soft_limit(old);
            assert!(r.is_err(), "the injected snapshot write error must surface as an error of checkpoint()");
        }
        "staging" => { // the write of the staged blob fails
            let old = set_fsize_soft_limit(0);
            let r = sput(&cas, "key_e", &vec![7u8; 100_000]);
            set_fsize_soft_limit(old);
            assert!(r.is_err(), "the injected staging write error must surface as an error of the put");
            assert_eq!(std::fs::read_dir(db.join("staging")).unwrap().count(), 0, "the failed transaction must leave no staging file");
        }
        _ => panic!("unknown scenario"),
    }
    // later operations still work and nobody else was harmed (in this session)
    sput(&cas, "key_f", b"value of f").unwrap();
    for (k, v) in [("key_a", &b"value of a"[..]), ("key_b", b"value of b"), ("key_c", b"value of c"), ("key_d", b"value of d"), ("key_f", b"value of f")] {
        assert_eq!(sget(&cas, k).as_deref(), Some(v), "{k} damaged in the session that hit the fault");
    }
}
/// bound: 5 single faults (WAL append after a mid-segment reopen; snapshot write with / without an earlier snapshot / on a brand-new store;
/// staging write), each followed by further operations and a reopen
#[test]
fn bounded_single_io_fault_is_contained() {
    if let Ok(spec) = std::env::var(FAULT_ENV) { fault_child(&spec); return; }
    for scenario in ["wal", "snapshot", "snapshot2", "snapshot0", "staging"] {
        let dir = tempfile::tempdir().unwrap();
        let db = dir.path();
        if scenario != "snapshot0" { let cas = crate::Cas::<String>::open(db, fault_cfg()).unwrap(); sput(&cas, "key_a", b"value of a").unwrap(); sput(&cas, "key_b", b"value of b").unwrap(); }
        let out = std::process::Command::new(std::env::current_exe().unwrap())
            .args(["verif_bounded::bounded_single_io_fault_is_contained", "--exact", "--nocapture", "--test-threads=1"])
            .env(FAULT_ENV, format!("{}:{}", scenario, db.display())).output().unwrap();
        assert!(out.status.success(), "scenario {scenario}: the session that hit one I/O fault misbehaved:\n{}\n{}", String::from_utf8_lossy(&out.stdout), String::from_utf8_lossy(&out.stderr));
        let cas = crate::Cas::<String>::open(db, fault_cfg()).unwrap_or_else(|e| panic!("scenario {scenario}: reopen failed although only one operation hit an I/O error: {e:?}"));
        let mut want = vec![("key_a", &b"value of a"[..]), ("key_b", b"value of b"), ("key_c", b"value of c"), ("key_d", b"value of d"), ("key_f", b"value of f")];
        if scenario == "snapshot2" { want.push(("key_g", b"value of g")); }
        for (k, v) in want { assert_eq!(sget(&cas, k).as_deref(), Some(v), "scenario {scenario}: {k} lost its content after the reopen although another operation hit the I/O error"); }
        let e = sget(&cas, "key_e");
        assert!(e.is_none() || e.as_deref() == Some(&b"e"[..]) || e.as_deref() == Some(&vec![7u8; 100_000][..]), "scenario {scenario}: the key of the failed operation holds neither its old nor its new value");
        sput(&cas, "key_h", b"after").unwrap(); cas.checkpoint().unwrap();
    }
}

/// bound: one failing unlink(2) of an unreferenced blob (its path is a directory while the overwrite runs: EISDIR/EPERM), then a
/// re-put of the very same content under another key, further overwrites / removals (each of which deletes blobs), a reopen
#[test]
fn bounded_failed_blob_unlink_is_contained() {
    let dir = tempfile::tempdir().unwrap();
    let x = vec![0x58u8; 3000]; let y = vec![0x59u8; 2000];
    let path_x = dir.path().join("cas").join(crate::calculate_blob_hash(&x).relative_path());
    {
        let cas = crate::Cas::<String>::open(dir.path(), fault_cfg()).unwrap();
        sput(&cas, "k1", &x).unwrap(); sput(&cas, "other", b"untouched").unwrap();
        // the fault: while k1 is overwritten the old blob cannot be unlinked
        std::fs::remove_file(&path_x).unwrap(); std::fs::create_dir(&path_x).unwrap();
        let _ = sput(&cas, "k1", &y);                       // may report the failed clean-up or not
        let _ = std::fs::remove_dir(&path_x);               // the condition that made unlink fail is over
        // later operations: the same content comes back under another key, and more blobs are deleted
        sput(&cas, "k2", &x).unwrap_or_else(|e| panic!("a later put of the content whose unlink failed earlier: {e}"));
        sput(&cas, "k3", b"z1").unwrap(); sput(&cas, "k3", b"z2").unwrap();
        assert!(cas.remove(&"k3".to_string()).unwrap());
        sput(&cas, "k4", b"w1").unwrap(); sput(&cas, "k4", b"w2").unwrap();
        let check = |cas: &crate::Cas<String>, when: &str| {
            assert_eq!(cas.get(&"other".to_string()).unwrap_or_else(|e| panic!("{when}: get(other): {e:?}")).as_deref(), Some(&b"untouched"[..]), "{when}: a key no failed operation touched");
            let k2 = cas.get(&"k2".to_string()).unwrap_or_else(|e| panic!("{when}: get(k2) fails although only an earlier overwrite of k1 hit an unlink error: {e:?}"));
            assert!(k2.as_deref() == Some(&x[..]), "{when}: k2 lost its content");
            let k1 = cas.get(&"k1".to_string()).unwrap_or_else(|e| panic!("{when}: get(k1): {e:?}"));
            assert!(k1.as_deref() == Some(&x[..]) || k1.as_deref() == Some(&y[..]), "{when}: the key of the failed operation holds neither its old nor its new value");
            assert_eq!(cas.get(&"k4".to_string()).unwrap().as_deref(), Some(&b"w2"[..]), "{when}: k4");
        };
        check(&cas, "same session");
    }
    let cas = crate::Cas::<String>::open(dir.path(), fault_cfg()).unwrap_or_else(|e| panic!("reopen after one failed unlink: {e:?}"));
    assert_eq!(sget(&cas, "other").as_deref(), Some(&b"untouched"[..]), "after reopen: other");
    assert!(sget(&cas, "k2").as_deref() == Some(&x[..]), "after reopen: k2 lost its content");
    assert_eq!(sget(&cas, "k4").as_deref(), Some(&b"w2"[..]), "after reopen: k4");
}

/// bound: log records of 45 B ... 5 MiB (keys of 0 / 9,000 / 70,000 / 1,100,000 / 5,000,000 bytes, then one Remove of all five), N=1000 so that
/// nothing is checkpointed; kill image and clean reopen; then every single-byte change of the record that follows the largest one
#[test]
fn bounded_large_log_records_survive_reopen_and_stay_checked() {
    fn copy_dir(from: &std::path::Path, to: &std::path::Path) {
        std::fs::create_dir_all(to).unwrap();
        for e in std::fs::read_dir(from).unwrap().flatten() {
            let p = e.path(); let t = to.join(e.file_name());
            if p.is_dir() { copy_dir(&p, &t); } else if e.file_name() != "LOCK" { std::fs::copy(&p, &t).unwrap(); }
        }
    }
    let c = || Config { num_ops_per_wal: NonZeroU64::new(1000).unwrap(), scan_orphans_on_startup: false, ..Config::default() };
    let sizes = [0usize, 9_000, 70_000, 1_100_000, 5_000_000];
    let key = |n: usize| -> Vec<u8> { (0..n).map(|j| (j as u32).wrapping_mul(2654435761).rotate_left(9) as u8).collect() };
    let dir = tempfile::tempdir().unwrap();
    let live = dir.path().join("live");
    let (img_puts, img_all);
    {
        let cas: crate::Cas<Vec<u8>> = crate::Cas::open(&live, c()).unwrap();
        for (i, n) in sizes.iter().enumerate() { put(&cas, key(*n), format!("value {i}").as_bytes()); }
        put(&cas, b"after the big ones".to_vec(), b"tail");
        img_puts = dir.path().join("img_puts"); copy_dir(&live, &img_puts);       // kill image: every put acknowledged
        let n = cas.remove_range::<std::ops::RangeFull>(..).unwrap(); assert_eq!(n, sizes.len() + 1);
        put(&cas, b"last".to_vec(), b"z");
        img_all = dir.path().join("img_all"); copy_dir(&live, &img_all);
    }
    for (what, p) in [("kill image after the puts", &img_puts)] {
        let cas: crate::Cas<Vec<u8>> = crate::Cas::open(p, c()).unwrap_or_else(|e| panic!("{what}: open fails although every operation was acknowledged: {e:?}"));
        for (i, n) in sizes.iter().enumerate() {
            assert_eq!(cas.get(&key(*n)).unwrap().as_deref(), Some(format!("value {i}").as_bytes()), "{what}: the acknowledged put with a key of {n} bytes is missing");
        }
        assert_eq!(cas.get(&b"after the big ones".to_vec()).unwrap().as_deref(), Some(&b"tail"[..]), "{what}: the put logged after the large records is missing");
    }
    for (what, p) in [("kill image after the bulk removal", &img_all), ("clean reopen", &live)] {
        let cas: crate::Cas<Vec<u8>> = crate::Cas::open(p, c()).unwrap_or_else(|e| panic!("{what}: open fails although every operation was acknowledged: {e:?}"));
        let keys: Vec<Vec<u8>> = cas.read_index_state().iter().map(|(k, _)| k.clone()).collect();
        assert_eq!(keys, vec![b"last".to_vec()], "{what}: the acknowledged bulk removal (one log record of > 6 MB) or the put after it was not replayed");
    }
    // damage behind the largest records must still be noticed: flip one byte in the last record (the put of "last") of the image
    let seg = img_all.join("0_index.wal");
    let orig = std::fs::read(&seg).unwrap();
    let last_len = 44 + 4 + 1 + 4 + 32 + 8;   // header + Put{key "last"}: tag-less layout is not assumed: only the tail region is used
    for back in [1usize, 9, 20, 33, 41] {
        if back >= last_len { continue; }
        let mut bytes = orig.clone(); let at = bytes.len() - back; bytes[at] ^= 0x40;
        let d2 = dir.path().join(format!("dmg{back}")); copy_dir(&img_all, &d2); std::fs::write(d2.join("0_index.wal"), &bytes).unwrap();
        match crate::Cas::<Vec<u8>>::open(&d2, c()) {
            Err(_) => {}
            Ok(cas) => {
                let keys: Vec<Vec<u8>> = cas.read_index_state().iter().map(|(k, _)| k.clone()).collect();
                assert!(keys.is_empty(), "a changed byte {back} from the end of the log (behind a 6 MB record) was accepted silently: the store opened with {} keys that are not the state after the longest undamaged prefix", keys.len());
            }
        }
    }
}

/// bound: one failed WAL append right after a reopen (the segment path is a directory while the writer is opened: EISDIR; the
/// version it drew is burned), followed by {explicit checkpoint, no checkpoint} x {1, 3} later puts, and two further reopens
#[test]
fn bounded_failed_append_version_gap_survives_restarts() {
    for with_checkpoint in [true, false] { for later in [1usize, 3] {
        let what = format!("checkpoint after the failed append: {with_checkpoint}, {later} later put(s)");
        let dir = tempfile::tempdir().unwrap(); let parking = tempfile::tempdir().unwrap();
        let open = || crate::Cas::<String>::open(dir.path(), fault_cfg()).unwrap_or_else(|e| panic!("{what}: reopen fails: {e:?}"));
        { let cas = open(); sput(&cas, "k1", b"one").unwrap(); sput(&cas, "k2", b"two").unwrap(); }
        {
            let cas = open();
            let seg0 = dir.path().join("0_index.wal"); let parked = parking.path().join("0_index.wal");
            std::fs::rename(&seg0, &parked).unwrap(); std::fs::create_dir(&seg0).unwrap();
            let failed = sput(&cas, "k3", b"three");
            std::fs::remove_dir(&seg0).unwrap(); std::fs::rename(&parked, &seg0).unwrap();
            if failed.is_ok() { continue; }   // the implementation did not need to open the segment: no fault was injected
            assert_eq!(sget(&cas, "k3"), None, "{what}: the failed put left its key untouched");
            if with_checkpoint { cas.checkpoint().unwrap_or_else(|e| panic!("{what}: checkpoint after a failed append: {e:?}")); }
        }
        { let cas = open(); for i in 0..later { sput(&cas, &format!("later{i}"), format!("v{i}").as_bytes()).unwrap_or_else(|e| panic!("{what}: put after the reopen: {e}")); } }
        for round in 0..2 {
            let cas = open();
            assert_eq!(sget(&cas, "k1").as_deref(), Some(&b"one"[..]), "{what}, reopen {round}: k1");
            assert_eq!(sget(&cas, "k2").as_deref(), Some(&b"two"[..]), "{what}, reopen {round}: k2");
            assert_eq!(sget(&cas, "k3"), None, "{what}, reopen {round}: the failed put must stay invisible");
            for i in 0..later { assert_eq!(sget(&cas, &format!("later{i}")).as_deref(), Some(format!("v{i}").as_bytes()), "{what}, reopen {round}: the put `later{i}` was acknowledged after the failed append and must survive every reopen"); }
        }
    } }
}

/// bound: one store whose only garbage is a staging file left by a crashed transaction
#[test]
fn bounded_cleanup_of_staging_leftover_alone() {
    let dir = tempfile::tempdir().unwrap();
    { let cas: crate::Cas<String> = crate::Cas::open(dir.path(), cfg()).unwrap(); put(&cas, "live".to_string(), b"live data");
      let mut t = cas.put("crashed".to_string()).unwrap(); t.write(b"half written").unwrap(); std::mem::forget(t); }
    let before: Vec<_> = std::fs::read_dir(dir.path().join("staging")).unwrap().flatten().map(|e| e.path()).collect();
    assert_eq!(before.len(), 1, "the simulated crash leaves one staging file");
    let _ = std::fs::remove_file(dir.path().join("LOCK"));
    let c2 = Config { scan_orphans_on_startup: true, ..Config::default() };
    let (_cas, stats) = crate::Cas::<String>::open_with_recover(dir.path(), c2).unwrap();
    let stats = stats.unwrap();
    assert_eq!(stats.staging_files, before, "the scan reports the leftover staging file");
    let res = stats.delete_orphans().unwrap();
    assert!(res.errors.is_empty());
    assert_eq!(std::fs::read_dir(dir.path().join("staging")).unwrap().count(), 0, "clean-up removes the reported staging file even when nothing else is garbage");
}

/// bound: db_settings.json rewritten with 11 foreign / malformed version values; the build's own version reopens
#[test]
fn bounded_settings_version_gate() {
    let dir = tempfile::tempdir().unwrap();
    { let cas: crate::Cas<u8> = crate::Cas::open(dir.path(), cfg()).unwrap(); put(&cas, 1, b"x"); }
    let path = dir.path().join("db_settings.json");
    let orig = std::fs::read_to_string(&path).unwrap();
    let v: serde_json::Value = serde_json::from_str(&orig).unwrap();
    let cur = v["version"].as_u64().expect("settings carry a numeric version");
    let with = |ver: &str| orig.replacen(&format!("\"version\":{}", cur), &format!("\"version\":{}", ver), 1);
    assert_ne!(with("99"), orig, "the settings file has the documented `\"version\":N` field");
    for ver in [format!("{}", cur + 1), format!("{}", cur.wrapping_sub(1)), "0".into(), format!("{}", u32::MAX), format!("{}", (1u64 << 32) + cur), format!("{}", 7 * (1u64 << 32) + cur),
                format!("{}", u64::MAX), "-1".into(), format!("\"{}\"", cur), format!("{}.5", cur), "null".into()] {
        std::fs::write(&path, with(&ver)).unwrap();
        let r = crate::Cas::<u8>::open(dir.path(), cfg());
        assert!(r.is_err(), "a database whose stored format version is {ver} (build version {cur}) must be rejected");
        assert_eq!(std::fs::read_to_string(&path).unwrap(), with(&ver), "a rejected open must not rewrite the settings");
    }
    std::fs::write(&path, &orig).unwrap();
    let cas = crate::Cas::<u8>::open(dir.path(), cfg()).expect("the unmodified settings reopen");
    assert_eq!(&cas.get(&1).unwrap().unwrap()[..], b"x");
}

/// an independent reader of the documented WAL format: (version, payload) of every record; at most one end marker, at the very end
fn decode_segment(bytes: &[u8], what: &str) -> Vec<(u64, Vec<u8>)> {
    let mut out = Vec::new(); let mut off = 0usize; let mut markers = 0;
    while off < bytes.len() {
        assert!(off + 44 <= bytes.len(), "{what}: incomplete record header at offset {off} (file length {})", bytes.len());
        let v = u64::from_le_bytes(bytes[off..off + 8].try_into().unwrap());
        let n = u32::from_le_bytes(bytes[off + 40..off + 44].try_into().unwrap()) as usize;
        if bytes[off..off + 44].iter().all(|b| *b == 0) { markers += 1; off += 44; continue; }
        assert_eq!(markers, 0, "{what}: a record follows an end-of-segment marker");
        assert!(off + 44 + n <= bytes.len(), "{what}: incomplete record payload at offset {off}");
        let payload = &bytes[off + 44..off + 44 + n];
        assert_eq!(&crate::calculate_blob_hash(payload).0[..], &bytes[off + 8..off + 40], "{what}: checksum of record v{v} does not match");
        out.push((v, payload.to_vec())); off += 44 + n;
    }
    assert!(markers <= 1, "{what}: the segment carries {markers} end-of-segment markers, at most one is allowed");
    out
}
/// bound: N=4; a rollover whose new segment cannot be created (a directory sits at its name), two failing puts, the fault
/// healed, two more puts, a restart; the log is decoded by an independent reader after every phase
#[test]
fn bounded_failed_rollover_leaves_well_formed_log() {
    let dir = tempfile::tempdir().unwrap();
    let c = Config { num_ops_per_wal: NonZeroU64::new(4).unwrap(), scan_orphans_on_startup: false, ..Config::default() };
    let check_log = |phase: &str| {
        let mut last = 0u64;
        let mut segs: Vec<(u64, std::path::PathBuf)> = std::fs::read_dir(dir.path()).unwrap().flatten().filter_map(|e| { let n = e.file_name().to_string_lossy().to_string(); n.strip_suffix("_index.wal").and_then(|i| i.parse::<u64>().ok()).map(|i| (i, e.path())) }).filter(|(_, p)| p.is_file()).collect();
        segs.sort();
        for (id, p) in segs {
            for (v, _) in decode_segment(&std::fs::read(&p).unwrap(), &format!("{phase}: segment {id}")) {
                assert!(v > last, "{phase}: versions must increase strictly through the log (v{v} after v{last})"); last = v;
                assert!(v > id * 4 && v <= (id + 1) * 4, "{phase}: version {v} is outside the range of segment {id}");
            }
        }
    };
    {
        let cas: crate::Cas<String> = crate::Cas::open(dir.path(), c.clone()).unwrap();
        for i in 0..4 { sput(&cas, &format!("k{i}"), format!("v{i}").as_bytes()).unwrap(); }
        check_log("after four puts");
        std::fs::create_dir(dir.path().join("1_index.wal")).unwrap();
        assert!(sput(&cas, "f1", b"x").is_err() && sput(&cas, "f2", b"y").is_err(), "puts must fail while the next segment cannot be created");
        check_log("after two failed rollovers");
        std::fs::remove_dir(dir.path().join("1_index.wal")).unwrap();
        sput(&cas, "k4", b"v4").unwrap(); sput(&cas, "k5", b"v5").unwrap();
        check_log("after the fault was healed");
        for i in 0..6 { assert_eq!(sget(&cas, &format!("k{i}")).as_deref(), Some(format!("v{i}").as_bytes())); }
    }
    check_log("after a clean shutdown");
    let cas: crate::Cas<String> = crate::Cas::open(dir.path(), c).expect("reopen after a healed rollover fault");
    for i in 0..6 { assert_eq!(sget(&cas, &format!("k{i}")).as_deref(), Some(format!("v{i}").as_bytes()), "acknowledged key k{i} after restart"); }
    check_log("after the restart");
}

/// bound: one thread, N=2, 60 operations chosen so that overwrites, removes, range removals and checkpoints each fall on
/// the first and the last op of a segment; watchdog 120 s (every call returns)
#[test]
fn bounded_every_call_returns_on_segment_boundaries() {
    let dir = tempfile::tempdir().unwrap();
    let path = dir.path().to_path_buf();
    let (txc, rxc) = std::sync::mpsc::channel();
    std::thread::spawn(move || {
        let c = Config { num_ops_per_wal: NonZeroU64::new(2).unwrap(), scan_orphans_on_startup: false, ..Config::default() };
        let cas: crate::Cas<u8> = crate::Cas::open(&path, c).unwrap();
        let mut model: BTreeMap<u8, Vec<u8>> = BTreeMap::new();
        let mut step = 0u32;
        let mut op = |kind: u32, k: u8, cas: &crate::Cas<u8>, model: &mut BTreeMap<u8, Vec<u8>>| {
            step += 1;
            match kind {
                0 => { let v = format!("value {step} of key {k}").into_bytes(); put(cas, k, &v); model.insert(k, v); }
                1 => { let v = b"shared content".to_vec(); put(cas, k, &v); model.insert(k, v); }
                2 => { let was = cas.remove(&k).unwrap(); assert_eq!(was, model.remove(&k).is_some()); }
                3 => { let n = cas.remove_range(k..=k.saturating_add(2)).unwrap(); let ks: Vec<u8> = model.range(k..=k.saturating_add(2)).map(|(k, _)| *k).collect(); assert_eq!(n, ks.len()); for x in ks { model.remove(&x); } }
                _ => { cas.checkpoint().unwrap(); }
            }
        };
        // every kind of op as first-of-segment and as last-of-segment, on keys that exist and that do not
        for round in 0..3u8 {
            for kind in [0u32, 0, 1, 0, 2, 0, 1, 1, 3, 0, 0, 4, 0, 2, 3, 1, 0, 0, 2, 4] { op(kind, (round + kind as u8 * 3) % 5, &cas, &mut model); }
        }
        for (k, v) in &model { assert!(cas.get(k).unwrap().unwrap()[..] == v[..]); }
        let keys: Vec<u8> = cas.read_index_state().iter().map(|(k, _)| *k).collect();
        assert_eq!(keys, model.keys().copied().collect::<Vec<_>>());
        let _ = txc.send(());
    });
    rxc.recv_timeout(std::time::Duration::from_secs(120)).expect("an operation of the single-threaded workload never returned (or failed): see the panic above");
}

/// bound: one store; a put is in flight (staging file written, not finished) while clean-up of an older leftover runs
#[test]
fn bounded_cleanup_spares_inflight_transaction() {
    let dir = tempfile::tempdir().unwrap();
    { let cas: crate::Cas<String> = crate::Cas::open(dir.path(), cfg()).unwrap(); put(&cas, "live".to_string(), b"live data"); }
    let old_left = dir.path().join("staging").join(".tmpOLD111"); std::fs::write(&old_left, b"leftover of a crashed transaction").unwrap();
    let c2 = Config { scan_orphans_on_startup: true, ..Config::default() };
    let (cas, stats) = crate::Cas::<String>::open_with_recover(dir.path(), c2).unwrap();
    let stats = stats.unwrap();
    assert_eq!(stats.staging_files, vec![old_left.clone()]);
    let mut tx = cas.put("inflight".to_string()).unwrap(); tx.write(b"written while clean-up runs").unwrap();
    let res = stats.delete_orphans().unwrap();
    assert!(res.errors.is_empty());
    assert!(!old_left.exists(), "the reported leftover is removed");
    tx.finish().expect("clean-up removes exactly the reported garbage: a transaction that was started after the scan must still be able to finish");
    assert_eq!(&cas.get(&"inflight".to_string()).unwrap().unwrap()[..], b"written while clean-up runs");
}

/// bound: 8 blob lengths x 10x10 boundary (start, end) pairs incl. 2^63, 2^64-2, 2^64-1
#[test]
fn bounded_range_reads_boundary_triples() {
    let dir = tempfile::tempdir().unwrap();
    let cas: crate::Cas<String> = crate::Cas::open(dir.path(), cfg()).unwrap();
    for (i, l) in [0usize, 1, 2, 17, 4096, 65_536, 65_537, 200_000].into_iter().enumerate() {
        let content: Vec<u8> = (0..l).map(|j| (j * 31 + i) as u8).collect();
        let key = format!("k{i}");
        put(&cas, key.clone(), &content);
        let lu = l as u64;
        let pts = [0u64, 1, lu.saturating_sub(1), lu, lu + 1, lu / 2, 1 << 32, 1 << 63, u64::MAX - 1, u64::MAX];
        for &s_ in &pts { for &e in &pts {
            let r = std::panic::catch_unwind(std::panic::AssertUnwindSafe(|| cas.get_range(&key, s_, e)));
            let r = r.unwrap_or_else(|_| panic!("get_range panicked for L={l} start={s_} end={e}"));
            if s_ <= e {
                let (lo, hi) = (s_.min(lu) as usize, e.min(lu) as usize);
                let got = r.unwrap_or_else(|er| panic!("get_range({s_}, {e}) on a blob of length {l} was rejected ({er:?}); it must clamp")).expect("key present");
                assert!(got[..] == content[lo..hi], "get_range != slice for L={l} start={s_} end={e}");
            } else if s_ < lu {
                assert!(r.is_err(), "start > end with start < L must be rejected (L={l} start={s_} end={e})");
            }
        }}
        assert_eq!(cas.get_size(&key).unwrap(), Some(lu));
    }
}

/// bound: every history of at most 4 steps over {put(a,X), put(a,Y), put(b,X), remove(a), remove_range(all), checkpoint,
/// clean restart}, N=2; after each history: a copy of the directory taken while the handle is alive (a kill) and a clean
/// reopen must both show exactly the live state (keys, contents, sizes, reference counts, statistics)
#[test]
fn bounded_reopen_equivalence_small_histories() {
    type Snap = (Vec<(String, Vec<u8>, u64)>, Vec<(BlobHash, u32)>, u64, u64);
    fn snap(cas: &crate::Cas<String>) -> Snap {
        let st = cas.read_index_state();
        let keys: Vec<(String, BlobHash, u64)> = st.iter().map(|(k, i)| (k.clone(), i.blob_hash, i.blob_size)).collect();
        let mut refs: Vec<(BlobHash, u32)> = st.known_blobs().map(|(h, c)| (*h, *c)).collect(); refs.sort();
        drop(st);
        let items = keys.into_iter().map(|(k, _, sz)| { let v = cas.get(&k).unwrap().unwrap().to_vec(); (k, v, sz) }).collect();
        let stats = cas.stats();
        (items, refs, stats.cas.unique_blobs, stats.cas.total_bytes)
    }
    fn copy_dir(from: &std::path::Path, to: &std::path::Path) {
        std::fs::create_dir_all(to).unwrap();
        for e in std::fs::read_dir(from).unwrap().flatten() {
            let p = e.path(); let t = to.join(e.file_name());
            if p.is_dir() { copy_dir(&p, &t); } else if e.file_name() != "LOCK" { std::fs::copy(&p, &t).unwrap(); }
        }
    }
    let names = ["put(a,X)", "put(a,Y)", "put(b,X)", "remove(a)", "remove_range(..)", "checkpoint", "restart"];
    let mut count = 0u32;
    // N=2: every history of <= 4 steps (each segment's first op triggers a checkpoint); N=3: every history of <= 3 steps
    // (several operations stay in the un-checkpointed tail)
    for (n_ops, max_len) in [(2u64, 4u32), (3, 3)] {
    let c = Config { num_ops_per_wal: NonZeroU64::new(n_ops).unwrap(), scan_orphans_on_startup: false, sync_mode: crate::types::SyncMode::Async, ..Config::default() };
    for len in 1..=max_len {
        for code in 0..7u32.pow(len) {
            let steps: Vec<u32> = (0..len).map(|i| (code / 7u32.pow(i)) % 7).collect();
            if steps.first() == Some(&6) || steps.first() == Some(&5) { continue; } // start with an operation on data
            let dir = tempfile::tempdir().unwrap();
            let mut cas: Option<crate::Cas<String>> = Some(crate::Cas::open(dir.path(), c.clone()).unwrap());
            let what: Vec<String> = std::iter::once(format!("N={n_ops}")).chain(steps.iter().map(|s| names[*s as usize].to_string())).collect();
            for st in &steps {
                let h = cas.as_ref().unwrap();
                match st {
                    0 => put(h, "a".into(), b"content X"), 1 => put(h, "a".into(), b"content Y, longer"), 2 => put(h, "b".into(), b"content X"),
                    3 => { h.remove(&"a".to_string()).unwrap(); }
                    4 => { h.remove_range("a".to_string()..="z".to_string()).unwrap(); }
                    5 => h.checkpoint().unwrap(),
                    _ => { cas = None; cas = Some(crate::Cas::open(dir.path(), c.clone()).unwrap_or_else(|e| panic!("history {what:?}: clean restart failed: {e:?}"))); }
                }
            }
            let live = snap(cas.as_ref().unwrap());
            // a kill: the directory as it is while the handle is alive
            let killed = tempfile::tempdir().unwrap();
            copy_dir(dir.path(), killed.path());
            { let k = crate::Cas::<String>::open(killed.path(), c.clone()).unwrap_or_else(|e| panic!("history {what:?}: open after a kill failed: {e:?}"));
              assert_eq!(snap(&k), live, "history {what:?}: the state recovered after a kill differs from the acknowledged state"); }
            cas = None;
            let again = crate::Cas::<String>::open(dir.path(), c.clone()).unwrap_or_else(|e| panic!("history {what:?}: reopen failed: {e:?}"));
            assert_eq!(snap(&again), live, "history {what:?}: a clean restart changed the observable state");
            count += 1;
        }
    }
    }
    assert!(count > 1800);
}

/// C12 "after every operation": the statistics a handle REPORTS (`Cas::stats()`) equal those of the index it shows, also after an
/// operation whose blob clean-up failed (the index change is durable and visible, only the unlink failed).
/// bound: one store, three histories (overwrite / remove / range removal whose released blob cannot be unlinked)
#[test]
fn bounded_reported_stats_match_index_after_failed_cleanup() {
    fn expect_stats(cas: &crate::Cas<String>, what: &str) {
        let (uniq, bytes) = {
            let st = cas.read_index_state();
            let mut by_hash: HashMap<BlobHash, u64> = HashMap::new();
            for (_, it) in st.iter() { by_hash.insert(it.blob_hash, it.blob_size); }
            (by_hash.len() as u64, by_hash.values().sum::<u64>())
        };
        let s = cas.stats();
        assert_eq!(s.cas.unique_blobs, uniq, "{what}: reported unique_blobs must equal the number of distinct contents the index references");
        assert_eq!(s.cas.total_bytes, bytes, "{what}: reported total_bytes must equal the sum of their lengths");
    }
    for variant in 0..3 {
        let dir = tempfile::tempdir().unwrap();
        let cas: crate::Cas<String> = crate::Cas::open(dir.path(), cfg()).unwrap();
        put(&cas, "a".into(), b"first content of a");
        put(&cas, "b".into(), b"content of b, longer than the other one");
        expect_stats(&cas, "baseline");
        // make the blob of "a" impossible to unlink: replace the file by a non-empty directory
        let ha = cas.read_index_state().get_item(&"a".to_string()).unwrap().blob_hash;
        let p = cas.as_arc().paths.cas_file_path(&ha);
        std::fs::remove_file(&p).unwrap();
        std::fs::create_dir(&p).unwrap();
        std::fs::write(p.join("x"), b"x").unwrap();
        let r: Result<(), String> = match variant {
            0 => { let mut tx = cas.put("a".into()).unwrap(); tx.write(b"second").unwrap(); tx.finish().map_err(|e| e.to_string()) }
            1 => cas.remove(&"a".to_string()).map(|_| ()).map_err(|e| e.to_string()),
            _ => cas.remove_range("a".to_string()..="a".to_string()).map(|_| ()).map_err(|e| e.to_string()),
        };
        // the call may report the clean-up failure or succeed; either way what the handle reports must describe the index it shows
        let _ = r;
        expect_stats(&cas, &format!("variant {variant}: after an operation whose blob clean-up failed"));
        put(&cas, "c".into(), b"third");
        expect_stats(&cas, &format!("variant {variant}: after a later successful put"));
    }
}
