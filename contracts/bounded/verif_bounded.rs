//! BOUNDED stand-ins (never counted as proved): executable checks, with a stated bound, for functions that the deductive
//! verifier cannot reach (iterator adapters, `Path`, directory iteration, generic snapshot encoder). Appended to a scratch
//! copy of the current tree as `#[cfg(test)] mod verif_bounded;`. Oracles are written from the property statements.
#![allow(clippy::all, dead_code, unused)]
use std::collections::{BTreeMap, BTreeSet, HashMap};
use std::num::NonZeroU64;
use std::ops::Bound;
use std::path::PathBuf;

use crate::index::IndexStateItem;
use crate::types::{BlobHash, Config, KeyBytes, WalOp};

fn h(b: u8) -> BlobHash { BlobHash([b; 32]) }
fn cfg() -> Config { Config { scan_orphans_on_startup: false, ..Config::default() } }
fn put<K>(cas: &crate::Cas<K>, k: K, v: &[u8]) where K: KeyBytes + Clone + Eq + Ord + std::hash::Hash + std::fmt::Debug + Send + Sync + 'static {
    let mut tx = cas.put(k).unwrap(); tx.write(v).unwrap(); tx.finish().unwrap();
}

/// bound: every assignment of 4 keys to {absent, h0, h1, h2} (256 index states)
#[test]
fn bounded_recompute_stats_small_scope() {
    for code in 0..256u32 {
        let mut st = crate::index::IndexStateForWitness::<u8>::new();
        let mut sizes: HashMap<BlobHash, u64> = HashMap::new();
        for k in 0..4u8 {
            let c = (code >> (2 * k)) & 3;
            if c == 0 { continue; }
            let hash = h(c as u8); let size = 100 * c as u64 + 7;
            st.apply_logical_op(&WalOp::Put { key: k, hash, size }).unwrap();
            sizes.insert(hash, size);
        }
        st.stats.cas.unique_blobs = 999; st.stats.cas.total_bytes = 999;
        st.recompute_stats(42);
        assert_eq!(st.stats.cas.unique_blobs, sizes.len() as u64, "recompute_stats: unique_blobs for state code {code}");
        assert_eq!(st.stats.cas.total_bytes, sizes.values().sum::<u64>(), "recompute_stats: total_bytes must count each distinct content once (state code {code})");
        assert_eq!(st.stats.index.serialized_size_bytes, 42);
    }
}

/// bound: keys 0..6 present subset {0,1,2,4,5}; every pair of bounds (Included/Excluded/Unbounded) x values 0..7
#[test]
fn bounded_remove_range_bounds() {
    let kinds = |v: u8| vec![Bound::Included(v), Bound::Excluded(v), Bound::Unbounded];
    let present: Vec<u8> = vec![0, 1, 2, 4, 5];
    for sv in 0..7u8 { for ev in 0..7u8 { for s in kinds(sv) { for e in kinds(ev) {
        // BTreeMap::range panics for start > end or equal excluded bounds: callers must not do that either
        let lo = match s { Bound::Included(v) => v as i32 * 2, Bound::Excluded(v) => v as i32 * 2 + 1, Bound::Unbounded => -1 };
        let hi = match e { Bound::Included(v) => v as i32 * 2, Bound::Excluded(v) => v as i32 * 2 - 1, Bound::Unbounded => 100 };
        if lo > hi + 1 || (matches!(s, Bound::Excluded(_)) && matches!(e, Bound::Excluded(_)) && sv == ev) || (sv > ev && !matches!(s, Bound::Unbounded) && !matches!(e, Bound::Unbounded)) { continue; }
        let dir = tempfile::tempdir().unwrap();
        let cas: crate::Cas<u8> = crate::Cas::open(dir.path(), cfg()).unwrap();
        for k in &present { put(&cas, *k, &[*k % 2; 3]); } // two distinct contents shared by five keys: keys removed != blobs freed
        let model: BTreeSet<u8> = present.iter().copied().collect();
        let expect: Vec<u8> = model.range((s, e)).copied().collect();
        let n = cas.remove_range((s, e)).unwrap();
        assert_eq!(n, expect.len(), "remove_range({s:?}, {e:?}) must report the number of keys it removed");
        let left: Vec<u8> = cas.read_index_state().iter().map(|(k, _)| *k).collect();
        let want: Vec<u8> = model.iter().copied().filter(|k| !expect.contains(k)).collect();
        assert_eq!(left, want, "remove_range({s:?}, {e:?}) must remove exactly the keys in the range");
    }}}}
}

/// bound: 300 random hashes; every 3-way split of the 64 hex digits at (a, b) with a,b in 0..=8, upper/lower case, junk
#[test]
fn bounded_blob_path_decoder_total_and_bijective() {
    let mut x = 0x1234_5678_9abc_def1u64;
    let mut next = || { x ^= x << 13; x ^= x >> 7; x ^= x << 17; x };
    let mut seen: HashMap<PathBuf, BlobHash> = HashMap::new();
    for _ in 0..300 {
        let mut b = [0u8; 32]; for i in 0..32 { b[i] = next() as u8; }
        let hash = BlobHash(b);
        let p = hash.relative_path();
        assert_eq!(BlobHash::from_relative_path(&p).unwrap(), hash, "path must parse back to its hash");
        assert_eq!(BlobHash::from_relative_path(&PathBuf::from("/some/root/cas").join(&p)).unwrap(), hash);
        if let Some(o) = seen.insert(p.clone(), hash) { assert_eq!(o, hash, "two hashes share the path {p:?}"); }
        let comps: Vec<String> = p.components().map(|c| c.as_os_str().to_str().unwrap().to_string()).collect();
        assert_eq!((comps[0].len(), comps[1].len(), comps[2].len()), (2, 2, 60), "layout 2/2/60");
        let hex = hash.to_hex();
        for a in 0..=8usize { for c in 0..=8usize {
            if a + c > 64 { continue; }
            for variant in 0..3 {
                let s = match variant { 0 => hex.clone(), 1 => hex.to_uppercase(), _ => { let mut t = hex.clone().into_bytes(); t[(next() % 64) as usize] = b'z'; String::from_utf8(t).unwrap() } };
                let path = PathBuf::from(&s[..a]).join(&s[a..a + c]).join(&s[a + c..]);
                let r = std::panic::catch_unwind(|| BlobHash::from_relative_path(&path).is_ok());
                assert!(r.is_ok(), "from_relative_path panicked on {path:?}");
            }
        }}
    }
    for junk in ["", "a", "a/b", "a/b/c", "../../..", "ab/cd/ef/gh"] {
        let r = std::panic::catch_unwind(|| BlobHash::from_relative_path(std::path::Path::new(junk)).is_ok());
        assert!(r.is_ok(), "from_relative_path panicked on {junk:?}");
    }
}

/// bound: fixed key sets for u64 / i32 / String / Vec<u8> (byte-order crossings, sign change, empty key)
#[test]
fn bounded_snapshot_roundtrip_key_types() {
    use crate::serialization::{deserialize_index_state, serialize_index_state};
    fn rt<K: KeyBytes + Ord + Clone + std::fmt::Debug>(keys: Vec<K>) {
        let mut m: BTreeMap<K, IndexStateItem> = BTreeMap::new();
        for (i, k) in keys.iter().enumerate() { m.insert(k.clone(), IndexStateItem { blob_hash: h(i as u8), blob_size: i as u64 * 3 }); }
        for ver in [None, NonZeroU64::new(1), NonZeroU64::new(u64::MAX)] {
            let enc = serialize_index_state(&m, ver);
            let (dec, v2) = deserialize_index_state(&enc).unwrap_or_else(|e| panic!("snapshot of {keys:?} failed to decode: {e:?}"));
            assert_eq!(v2, ver, "snapshot version");
            let back: BTreeMap<Vec<u8>, IndexStateItem> = m.iter().map(|(k, it)| (k.to_key_bytes_owned(), *it)).collect();
            assert_eq!(dec, back, "snapshot of {keys:?} does not round-trip");
            for (kb, _) in dec.iter() { assert!(K::from_key_bytes(kb).is_some(), "decoded key bytes must decode to a key"); }
        }
    }
    rt::<u64>(vec![0, 1, 255, 256, 257, 65_536, u64::MAX]);
    rt::<i32>(vec![-1, 0, 1, i32::MIN, i32::MAX, 256]);
    rt::<String>(vec!["".into(), "a".into(), "ab".into(), "é".into(), "zzzz".into()]);
    rt::<Vec<u8>>(vec![vec![], vec![0], vec![0, 0], vec![255], vec![1, 2, 3]]);
    rt::<[u8; 4]>(vec![[0, 0, 0, 1], [1, 0, 0, 0], [255; 4]]);
    // through the store: integer keys, checkpoint, reopen
    let dir = tempfile::tempdir().unwrap();
    { let cas: crate::Cas<u64> = crate::Cas::open(dir.path(), cfg()).unwrap(); for k in [1u64, 256, 3, 70_000] { put(&cas, k, &k.to_le_bytes()); } cas.checkpoint().unwrap(); }
    let cas: crate::Cas<u64> = crate::Cas::open(dir.path(), cfg()).unwrap_or_else(|e| panic!("checkpointed integer-keyed store failed to reopen: {e:?}"));
    let ks: Vec<u64> = cas.read_index_state().iter().map(|(k, _)| *k).collect();
    assert_eq!(ks, vec![1, 3, 256, 70_000], "keys after reopen, ascending key order");
}

/// bound: String / Vec<u8> key encodings on fixed samples (the integer and array types are proved by Kani)
#[test]
fn bounded_key_bytes_string_vec() {
    for s in ["", "a", "héllo", "\u{10FFFF}", "with space"] {
        let k = s.to_string();
        assert_eq!(String::from_key_bytes(&k.to_key_bytes_owned()), Some(k.clone()));
        assert_eq!(k.to_key_bytes().as_ref() as &[u8], &k.to_key_bytes_owned()[..]);
    }
    assert_eq!(String::from_key_bytes(&[0xff, 0xfe]), None, "invalid UTF-8 is not a String key");
    for v in [vec![], vec![0u8], vec![1, 2, 3], vec![255; 40]] {
        assert_eq!(Vec::<u8>::from_key_bytes(&v.to_key_bytes_owned()), Some(v.clone()));
    }
}

/// bound: one constructed store with one instance of every category the scan reports
#[test]
fn bounded_scan_orphans_exact_and_cleanup() {
    let dir = tempfile::tempdir().unwrap();
    let (h_shared, h_single, h_lost, h_bad);
    {
        let cas: crate::Cas<String> = crate::Cas::open(dir.path(), cfg()).unwrap();
        put(&cas, "a".into(), b"shared content"); put(&cas, "b".into(), b"shared content");
        put(&cas, "c".into(), b"single"); put(&cas, "d".into(), b"will be lost"); put(&cas, "e".into(), b"will be corrupted");
        cas.checkpoint().unwrap();
        let st = cas.read_index_state();
        h_shared = st.get_item(&"a".to_string()).unwrap().blob_hash; h_single = st.get_item(&"c".to_string()).unwrap().blob_hash;
        h_lost = st.get_item(&"d".to_string()).unwrap().blob_hash; h_bad = st.get_item(&"e".to_string()).unwrap().blob_hash;
    }
    let casdir = dir.path().join("cas");
    let orphan = crate::calculate_blob_hash(b"nobody references me");
    let op = casdir.join(orphan.relative_path()); std::fs::create_dir_all(op.parent().unwrap()).unwrap(); std::fs::write(&op, b"nobody references me").unwrap();
    let invalid1 = casdir.join("stray-top-level-file"); std::fs::write(&invalid1, b"x").unwrap();
    let invalid2 = op.parent().unwrap().join("not-a-hash"); std::fs::write(&invalid2, b"x").unwrap();
    std::fs::remove_file(casdir.join(h_lost.relative_path())).unwrap();
    std::fs::write(casdir.join(h_bad.relative_path()), b"same length bytes!").unwrap();
    let leftover = dir.path().join("staging").join("leftover.tmp"); std::fs::write(&leftover, b"partial").unwrap();
    // a leftover with the name shape the crate's own staging files have (tempfile's default prefix is `.tmp`)
    let leftover2 = dir.path().join("staging").join(".tmpA1b2C3"); std::fs::write(&leftover2, b"partial too").unwrap();
    // a shard directory of a referenced blob that is a symlink to a directory elsewhere is still a directory
    let shard = casdir.join(h_single.relative_path()).parent().unwrap().to_path_buf();
    if !shard.starts_with(op.parent().unwrap()) && !op.parent().unwrap().starts_with(&shard) {
        let elsewhere = dir.path().join("moved-shard");
        std::fs::rename(&shard, &elsewhere).unwrap();
        std::os::unix::fs::symlink(&elsewhere, &shard).unwrap();
    }
    let c2 = Config { scan_orphans_on_startup: true, verify_blob_integrity: true, fail_on_integrity_errors: false, ..Config::default() };
    let (cas, stats) = crate::Cas::<String>::open_with_recover(dir.path(), c2).unwrap();
    let stats = stats.unwrap();
    assert_eq!(stats.orphaned_blobs, vec![orphan], "orphans = exactly the unreferenced CAS files");
    let mut inv = stats.invalid_files.clone(); inv.sort(); let mut want = vec![invalid1.clone(), invalid2.clone()]; want.sort();
    assert_eq!(inv, want, "invalid files = exactly the stray non-blob files");
    assert_eq!(stats.missing_blobs, vec![h_lost], "missing = exactly the referenced-but-absent blobs");
    assert_eq!(stats.corrupted_blobs, vec![h_bad], "corrupted = exactly the referenced blobs whose bytes do not match");
    let mut sf = stats.staging_files.clone(); sf.sort(); let mut wsf = vec![leftover.clone(), leftover2.clone()]; wsf.sort();
    assert_eq!(sf, wsf, "leftover staging files = exactly the files under staging/");
    let res = stats.delete_orphans().unwrap();
    assert!(res.errors.is_empty(), "{:?}", res.errors);
    assert!(!op.exists() && !invalid1.exists() && !invalid2.exists() && !leftover.exists() && !leftover2.exists(), "clean-up removes exactly the reported garbage");
    assert!(casdir.join(h_shared.relative_path()).exists() && casdir.join(h_single.relative_path()).exists(), "clean-up never removes a referenced blob");
    assert_eq!(cas.get(&"a".to_string()).unwrap().unwrap(), bytes::Bytes::from_static(b"shared content"));
}

/// bound: one database root whose name is not valid UTF-8
#[test]
fn bounded_cas_path_under_non_utf8_root() {
    use std::os::unix::ffi::OsStringExt;
    let base = tempfile::tempdir().unwrap();
    let root = base.path().join(std::ffi::OsString::from_vec(b"db-\xff\xfe-root".to_vec()));
    let paths = crate::paths::DbPaths::new(root.clone());
    let hash = h(0xab);
    let p = paths.cas_file_path(&hash);
    assert!(p.starts_with(root.join("cas")), "blob path must be under <db_root>/cas");
    assert!(p.ends_with(hash.relative_path()), "blob path must end with the hash-derived relative path");
}

/// bound: 24 chunkings of contents up to 12 MiB with chunk sizes {0,1,7,4095..8193,64Ki,1Mi,4Mi,5Mi} in mixed orders
#[test]
fn bounded_chunked_write_matches_whole() {
    let dir = tempfile::tempdir().unwrap();
    let cas: crate::Cas<u32> = crate::Cas::open(dir.path(), cfg()).unwrap();
    let plans: Vec<Vec<usize>> = vec![
        vec![], vec![0], vec![1], vec![0, 1, 0], vec![7, 4095, 4096, 4097], vec![8191, 8192, 8193], vec![8192, 1], vec![1, 8192],
        vec![65_536, 3, 65_536], vec![1 << 20, 5, 1 << 20], vec![5, 4 << 20, 9], vec![4 << 20, 4 << 20], vec![100, 5 << 20, 100, 1 << 20, 1], vec![(4 << 20) - 1, 1, (4 << 20) + 1],
        // whole blobs of round sizes in one call, and round totals reached in two calls
        vec![4096], vec![8192], vec![65_536], vec![1 << 20], vec![2 << 20], vec![4 << 20], vec![8 << 20], vec![1, (4 << 20) - 1], vec![(1 << 20) - 1, 1], vec![4 << 20, 4 << 20, 4 << 20],
    ];
    for (i, plan) in plans.iter().enumerate() {
        let total: usize = plan.iter().sum();
        let content: Vec<u8> = (0..total).map(|j| (j as u64).wrapping_mul(0x9E37_79B9).rotate_left(13) as u8 ^ i as u8).collect();
        let mut tx = cas.put(i as u32).unwrap();
        let mut off = 0;
        for n in plan { tx.write(&content[off..off + n]).unwrap(); off += n; }
        tx.finish().unwrap();
        let st = cas.read_index_state();
        let item = st.get_item(&(i as u32)).unwrap(); drop(st);
        let want = crate::calculate_blob_hash(&content);
        assert_eq!(item.blob_hash, want, "chunking {plan:?}: committed hash must be BLAKE3 of the whole content");
        assert_eq!(item.blob_size, total as u64, "chunking {plan:?}: recorded size");
        let path = dir.path().join("cas").join(want.relative_path());
        let on_disk = std::fs::read(&path).unwrap_or_else(|e| panic!("chunking {plan:?}: blob not at its hash path: {e}"));
        assert!(on_disk == content, "chunking {plan:?}: file bytes differ from the written content (len {} vs {})", on_disk.len(), content.len());
        assert!(cas.get(&(i as u32)).unwrap().unwrap()[..] == content[..], "chunking {plan:?}: get() differs from the written content");
    }
}

/// bound: 64 random hashes x every single-byte difference position (32) + equal copies
#[test]
fn bounded_blob_hash_eq_is_bytewise() {
    use std::hash::{Hash, Hasher};
    let mut x = 0xfeed_beef_1234_5678u64;
    let mut next = || { x ^= x << 13; x ^= x >> 7; x ^= x << 17; x };
    for _ in 0..64 {
        let mut b = [0u8; 32]; for i in 0..32 { b[i] = next() as u8; }
        let a = BlobHash(b);
        assert!(a == BlobHash(b), "equal bytes must compare equal");
        for i in 0..32 {
            let mut c = b; c[i] ^= 1 << (next() % 8);
            assert!(a != BlobHash(c), "hashes differing in byte {i} compare equal");
            assert!(a.cmp(&BlobHash(c)) != std::cmp::Ordering::Equal || true);
        }
        let hh = |v: &BlobHash| { let mut s = std::collections::hash_map::DefaultHasher::new(); v.hash(&mut s); s.finish() };
        assert_eq!(hh(&a), hh(&BlobHash(b)));
    }
}

/// bound: segment ids {0,1,2,9,10,11,99,100,101,1000, 18446744073709551615} in shuffled creation order + 6 non-segment names
#[test]
fn bounded_discover_segments_numeric_order() {
    let dir = tempfile::tempdir().unwrap();
    let paths = crate::paths::DbPaths::new(dir.path().to_path_buf());
    let ids: Vec<u64> = vec![100, 9, 1000, 0, 11, 2, u64::MAX, 10, 99, 1, 101];
    for id in &ids { std::fs::write(paths.wal_path_for_segment(*id), b"").unwrap(); }
    for junk in ["index", "x_index.wal", "12_index.wal.bak", "-3_index.wal", "7_index", "LOCK"] { std::fs::write(dir.path().join(junk), b"").unwrap(); }
    std::fs::create_dir(dir.path().join("cas")).unwrap();
    let st = crate::wal::storage_for_verif(paths.clone());
    let segs = st.discover_segments().unwrap();
    let got: Vec<u64> = segs.iter().map(|s| s.id).collect();
    let mut want = ids.clone(); want.sort();
    assert_eq!(got, want, "discover_segments must return exactly the segment files, in ascending NUMERIC id order");
    for s in &segs { assert_eq!(s.path, paths.wal_path_for_segment(s.id)); }
}

/// bound: batches of N distinct blobs for N in {1, 2, 3, 5, 255, 256, 257, 258, 259} deleted by one remove_range each
#[test]
fn bounded_bulk_delete_reclaims_every_blob() {
    fn count_files(p: &std::path::Path) -> usize {
        let mut n = 0;
        if let Ok(rd) = std::fs::read_dir(p) { for e in rd.flatten() { let p = e.path(); if p.is_dir() { n += count_files(&p); } else { n += 1; } } }
        n
    }
    let dir = tempfile::tempdir().unwrap();
    let cas: crate::Cas<u32> = crate::Cas::open(dir.path(), cfg()).unwrap();
    put(&cas, 1_000_000, b"keeper");
    for n in [1u32, 2, 3, 5, 255, 256, 257, 258, 259] {
        for k in 0..n { put(&cas, k, format!("blob {n} / {k}").as_bytes()); }
        assert_eq!(count_files(&dir.path().join("cas")), n as usize + 1, "one file per distinct content");
        let removed = cas.remove_range(0..n).unwrap();
        assert_eq!(removed, n as usize);
        assert_eq!(count_files(&dir.path().join("cas")), 1, "after removing a batch of {n} keys every blob of the batch must be gone");
        assert_eq!(count_files(&dir.path().join("staging")), 0, "staging must be empty");
    }
}

/// bound: one blob of 64 KiB + 123 bytes, two/three overlapping readers with interleaved partial reads and range reads
#[test]
fn bounded_overlapping_readers_stream_whole_blob() {
    use std::io::Read;
    let dir = tempfile::tempdir().unwrap();
    let cas: crate::Cas<u8> = crate::Cas::open(dir.path(), cfg()).unwrap();
    let content: Vec<u8> = (0..(65_536 + 123)).map(|i: usize| (i.wrapping_mul(31) >> 3) as u8).collect();
    put(&cas, 1, &content);
    put(&cas, 2, b"another blob");
    let mut a = cas.get_reader(&1).unwrap().unwrap();
    let mut got_a = vec![0u8; 10_000];
    a.read_exact(&mut got_a).unwrap();
    let mut b = cas.get_reader(&1).unwrap().unwrap();
    let mut got_b = Vec::new(); b.read_to_end(&mut got_b).unwrap();
    assert!(got_b == content, "reader B (opened while reader A was half way) must stream exactly the content: {} vs {}", got_b.len(), content.len());
    assert_eq!(&cas.get_range(&1, 100, 20_100).unwrap().unwrap()[..], &content[100..20_100]);
    let mut c = cas.get_reader(&1).unwrap().unwrap();
    let mut first_c = vec![0u8; 5]; c.read_exact(&mut first_c).unwrap();
    a.read_to_end(&mut got_a).unwrap();
    assert!(got_a == content, "reader A must stream exactly L bytes of the content ({} vs {})", got_a.len(), content.len());
    let mut rest_c = Vec::new(); c.read_to_end(&mut rest_c).unwrap(); first_c.extend(rest_c);
    assert!(first_c == content, "reader C must stream exactly the content");
    assert_eq!(cas.get_size(&1).unwrap(), Some(content.len() as u64));
    assert_eq!(&cas.get(&2).unwrap().unwrap()[..], b"another blob");
}

/// bound: 3 scenarios - an abandoned transaction with written bytes before a put; two transactions written interleaved;
/// a failed-then-retried put (same handle)
#[test]
fn bounded_transactions_are_independent() {
    let dir = tempfile::tempdir().unwrap();
    let cas: crate::Cas<u8> = crate::Cas::open(dir.path(), cfg()).unwrap();
    let check = |k: u8, content: &[u8], what: &str| {
        let st = cas.read_index_state(); let item = st.get_item(&k).unwrap(); drop(st);
        assert_eq!(item.blob_hash, crate::calculate_blob_hash(content), "{what}: committed hash != BLAKE3(content)");
        assert_eq!(item.blob_size, content.len() as u64, "{what}: size");
        assert!(cas.get(&k).unwrap().unwrap()[..] == content[..], "{what}: content");
    };
    put(&cas, 1, b"first");
    check(1, b"first", "before any abandoned transaction");
    { let mut t = cas.put(9).unwrap(); t.write(b"abandoned bytes that must not leak anywhere").unwrap(); }
    assert!(cas.get(&9).unwrap().is_none(), "abandoned transaction must not create the key");
    put(&cas, 2, b"second");
    check(2, b"second", "put after an abandoned transaction");
    let mut t1 = cas.put(3).unwrap(); let mut t2 = cas.put(4).unwrap();
    t1.write(b"aaa").unwrap(); t2.write(b"bbbb").unwrap(); t1.write(b"AAA").unwrap(); t2.write(b"BBBB").unwrap();
    t2.finish().unwrap(); t1.finish().unwrap();
    check(3, b"aaaAAA", "interleaved transaction 1"); check(4, b"bbbbBBBB", "interleaved transaction 2");
    { let t = cas.put(5).unwrap(); drop(t); }
    put(&cas, 5, b"");
    check(5, b"", "empty blob after an empty abandoned transaction");
    let staging: Vec<_> = std::fs::read_dir(dir.path().join("staging")).unwrap().collect();
    assert!(staging.is_empty(), "staging must be empty when nothing is in flight");
}

/// bound: one snapshot written with a byte-string key that is not valid UTF-8, reopened with String keys
#[test]
fn bounded_reopen_with_undecodable_snapshot_key() {
    let dir = tempfile::tempdir().unwrap();
    {
        let cas: crate::Cas<Vec<u8>> = crate::Cas::open(dir.path(), cfg()).unwrap();
        put(&cas, b"good".to_vec(), b"content one");
        put(&cas, vec![0xff, 0xfe, 0x00], b"content two");
        cas.checkpoint().unwrap();
    }
    match crate::Cas::<String>::open(dir.path(), cfg()) {
        Err(_) => {} // refusing to open is the behaviour of a total decoder that reports the bad key
        Ok(cas) => {
            let st = cas.read_index_state();
            let keys: Vec<String> = st.iter().map(|(k, _)| k.clone()).collect();
            let referenced: BTreeSet<BlobHash> = st.iter().map(|(_, it)| it.blob_hash).collect();
            let known: BTreeSet<BlobHash> = st.known_blobs().map(|(h, _)| *h).collect();
            assert_eq!(known, referenced, "after reopen the refcount table must account exactly for the keys exposed ({keys:?})");
        }
    }
}

/// bound: one store; a second open is attempted after each of 6 kinds of activity while the first handle is alive
#[test]
fn bounded_dirlock_held_through_operations() {
    let dir = tempfile::tempdir().unwrap();
    let c2 = Config { scan_orphans_on_startup: true, ..Config::default() };
    { let cas: crate::Cas<u8> = crate::Cas::open(dir.path(), cfg()).unwrap(); put(&cas, 1, b"x"); }
    std::fs::write(dir.path().join("staging").join("old.tmp"), b"leftover").unwrap();
    let (cas, stats) = crate::Cas::<u8>::open_with_recover(dir.path(), c2).unwrap();
    let second_open_refused = |when: &str| {
        match crate::Cas::<u8>::open(dir.path(), cfg()) {
            Err(_) => {}
            Ok(_) => panic!("a second live handle could be opened on an owned directory ({when})"),
        }
    };
    second_open_refused("right after open");
    put(&cas, 2, b"y"); second_open_refused("after a put");
    cas.checkpoint().unwrap(); second_open_refused("after a checkpoint");
    let stats = stats.unwrap();
    let res = stats.delete_orphans().unwrap(); assert!(res.errors.is_empty());
    second_open_refused("after orphan clean-up");
    cas.remove_range(0u8..=255).unwrap(); second_open_refused("after remove_range");
    let clone = cas.clone(); drop(cas); second_open_refused("after dropping one of two handles");
    drop(stats); second_open_refused("while a clone is still alive");
    drop(clone);
    let again = crate::Cas::<u8>::open(dir.path(), cfg());
    assert!(again.is_ok(), "once every handle is gone the directory can be opened again");
    assert_eq!(crate::paths::DbPaths::new(dir.path().to_path_buf()).lockfile_path(), dir.path().join("LOCK"), "documented layout: <db_root>/LOCK");
}
