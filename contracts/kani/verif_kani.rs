//! Kani harnesses on the REAL crate (appended to a scratch copy as `#[cfg(kani)] mod verif_kani;`).
//! Loop-free harnesses over full-domain symbolic inputs are complete proofs; harnesses with a length bound
//! are labelled `bounded` in contracts/kani/harnesses.json and never counted as proved.
use crate::types::{BlobHash, KeyBytes};

macro_rules! key_roundtrip {
    ($name:ident, $t:ty, $n:expr) => {
        #[kani::proof]
        fn $name() {
            let x: $t = kani::any();
            let b = x.to_key_bytes_owned();
            assert!(b.len() == $n);
            assert!(<$t as KeyBytes>::from_key_bytes(&b) == Some(x));
            // the borrowed form agrees with the owned form
            let bb = x.to_key_bytes();
            assert!(bb.as_ref() == &b[..]);
        }
    };
}
key_roundtrip!(key_roundtrip_u8, u8, 1);
key_roundtrip!(key_roundtrip_i8, i8, 1);
key_roundtrip!(key_roundtrip_u16, u16, 2);
key_roundtrip!(key_roundtrip_i16, i16, 2);
key_roundtrip!(key_roundtrip_u32, u32, 4);
key_roundtrip!(key_roundtrip_i32, i32, 4);
key_roundtrip!(key_roundtrip_u64, u64, 8);
key_roundtrip!(key_roundtrip_i64, i64, 8);
key_roundtrip!(key_roundtrip_u128, u128, 16);
key_roundtrip!(key_roundtrip_i128, i128, 16);
key_roundtrip!(key_roundtrip_arr0, [u8; 0], 0);
key_roundtrip!(key_roundtrip_arr1, [u8; 1], 1);
key_roundtrip!(key_roundtrip_arr16, [u8; 16], 16);
key_roundtrip!(key_roundtrip_arr32, [u8; 32], 32);

/// wrong-length input is rejected, never a panic (decoder totality for fixed-size keys)
#[kani::proof]
fn key_u64_rejects_wrong_length() {
    let b: [u8; 7] = kani::any();
    assert!(<u64 as KeyBytes>::from_key_bytes(&b).is_none());
    let c: [u8; 9] = kani::any();
    assert!(<u64 as KeyBytes>::from_key_bytes(&c).is_none());
}

/// hex law per byte (hex crate): two lower-case hex digits, decode(encode(b)) == b
#[kani::proof]
fn hex_byte_roundtrip() {
    let b: u8 = kani::any();
    let s = hex::encode([b]);
    let sb = s.as_bytes();
    assert!(sb.len() == 2);
    assert!((sb[0] >= b'0' && sb[0] <= b'9') || (sb[0] >= b'a' && sb[0] <= b'f'));
    assert!((sb[1] >= b'0' && sb[1] <= b'9') || (sb[1] >= b'a' && sb[1] <= b'f'));
    let mut out = [0u8; 1];
    assert!(hex::decode_to_slice(&s, &mut out).is_ok());
    assert!(out[0] == b);
}

/// BlobHash byte accessors are the identity on the array
#[kani::proof]
fn blob_hash_bytes_identity() {
    let a: [u8; 32] = kani::any();
    let h = BlobHash::from_bytes(a);
    assert!(*h.as_bytes() == a);
    assert!(h == BlobHash(a));
}

/// BlobHash equality is byte-wise equality of the 32 bytes, for every pair (full domain, no loop bound involved)
#[kani::proof]
fn blob_hash_eq_is_bytewise() {
    let a: [u8; 32] = kani::any();
    let b: [u8; 32] = kani::any();
    let same = a == b;
    assert!((BlobHash(a) == BlobHash(b)) == same);
    assert!((BlobHash(a) != BlobHash(b)) == !same);
}
