#!/bin/bash
# Robustness against realistic behaviour-preserving edits written by sub-agents (benign/agents/<id>/patch.diff):
# each is applied to its own scratch worktree and EVERY check is run against it (VERIF_REPO). Expected exit 0;
# exit 2 (UNDECIDED) is listed; exit 1 would be a false alarm. Usage: tools/benign_agents_sweep.sh [ids…]
ROOT=$(cd "$(dirname "$0")/.." && pwd)
out=${SWEEP_OUT:-$ROOT/benign/AGENTS_RESULTS.tsv}
PROPS=${SWEEP_PROPS:-"C01 C02 C03 C04 C05 C06 C07 C08 C09 C10 C11 C12 C13 C14 C15 C16 C17 C18 C19 C20"}
ids="$@"; [ -z "$ids" ] && { ids=$(ls $ROOT/benign/agents); : > $out; }
run_one() {
  id=$1; W=/tmp/bw-$id
  git -C /repo worktree remove --force $W 2>/dev/null; git -C /repo worktree add -q --detach $W HEAD || return
  (cd $W && git apply $ROOT/benign/agents/$id/patch.diff) || { echo -e "$id\t-\tPATCH-DOES-NOT-APPLY" >> $out; git -C /repo worktree remove --force $W; return; }
  export VERIF_REPO=$W VERIF_EVIDENCE_DIR=/var/tmp/bw-ev-$id VERIF_REPLAY_DIR=/var/tmp/bw-rp-$id VERIF_JOBS=3
  for pr in $PROPS; do
    r=$(cd $ROOT && ./check $pr 2>&1); rc=$?
    echo -e "$id\t$pr\trc=$rc\t$(echo "$r" | grep -E '^(HELD|VIOLATION|UNDECIDED)|failed obligation' | head -2 | tr '\n' ' ' | cut -c1-260)" >> $out
  done
  git -C /repo worktree remove --force $W; rm -rf /var/tmp/bw-ev-$id /var/tmp/bw-rp-$id
}
export -f run_one; export out ROOT PROPS
echo $ids | tr ' ' '\n' | xargs -P ${SWEEP_PAR:-4} -I{} bash -c 'run_one {}'
echo AGENTSWEEPDONE
