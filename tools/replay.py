"""./check --replay <file>: re-run the units named in a replay file on the current /repo tree and
report whether the recorded obligations still fail. Exit 1 if any still fails, 0 if all now hold."""
import json, os, tempfile, shutil


def replay(path, props, run_unit, tier):
    rp = json.load(open(path))
    scratch = tempfile.mkdtemp(prefix="verif-replay-", dir="/var/tmp")
    still = []
    try:
        want = set(o["obligation"] for o in rp["failed_obligations"])
        for u in rp.get("units", []):
            if u.startswith("K-") or u.startswith("S-"):
                continue
            r = run_unit(u, scratch, tier, vacuity=False)
            for f in r.get("failures", []):
                ob = "%s::%s" % (u, f["label"])
                if ob in want:
                    still.append(ob)
                    print("still failing: %s at %s: %s" % (ob, f.get("site"), f["message"]))
            for x in r.get("undecided", []):
                print("undecided:", x)
        w = rp.get("witness")
        if w and w.get("cmd"):
            print("witness command:", w["cmd"])
        if still:
            print("VIOLATION property=%s replay=%s%s" % (rp["property"], path, "" if w else " no-failing-input-found"))
            return 1
        print("replay: recorded obligations hold on the current tree")
        return 0
    finally:
        shutil.rmtree(scratch, ignore_errors=True)
