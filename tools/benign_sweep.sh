#!/bin/bash
# Robustness: apply harmless edits (property still holds) to a scratch worktree and run every check.
# Expected: exit 0 (HELD) — exit 2 (UNDECIDED) is tolerated and listed — exit 1 would be a false alarm.
W=/tmp/benign-wt
git -C /repo worktree remove --force $W 2>/dev/null; git -C /repo worktree add -q --detach $W HEAD || exit 1
export VERIF_REPO=$W VERIF_EVIDENCE_DIR=/var/tmp/benign-evidence VERIF_REPLAY_DIR=/var/tmp/benign-replay VERIF_NO_WITNESS=1
out=/verif/benign/RESULTS.tsv; : > $out
for p in /verif/benign/*.py; do
  id=$(basename $p .py)
  (cd $W && git checkout -q -- . && python3 $p $W) || { echo -e "$id\tEDIT-FAILED" >> $out; continue; }
  (cd $W && CARGO_NET_OFFLINE=true cargo build --offline -q 2>/dev/null) || { echo -e "$id\tDOES-NOT-COMPILE" >> $out; continue; }
  props=$(python3 -c "import sys;print(open('$p').readline().strip('# \n'))")
  for pr in $props; do
    r=$(cd /verif && ./check $pr 2>&1); rc=$?
    echo -e "$id\t$pr\trc=$rc\t$(echo "$r" | grep -E '^(HELD|VIOLATION|UNDECIDED)' | head -1 | cut -c1-200)" >> $out
  done
done
(cd $W && git checkout -q -- .); git -C /repo worktree remove --force $W
echo BENIGNDONE >> $out
