#!/usr/bin/env python3
"""Generate /verif/MANIFEST.json from contracts/properties.json (single source of truth)."""
import json, os
ROOT = os.path.dirname(os.path.dirname(os.path.abspath(__file__)))
d = json.load(open(os.path.join(ROOT, "contracts/properties.json")))
props = [json.loads(l) for l in open(os.path.join(ROOT, "properties.jsonl"))]
checks = []
na = []
for pr in props:
    pid = pr["id"]
    P = d["properties"].get(pid)
    if not P or not P.get("claimed", True):
        na.append({"property_id": pid, "reason": (P or {}).get("na_reason", "not decided by contract-based deductive verification here; see DESIGN.md §7")})
        continue
    units = P.get("units", [])
    l1 = [u for u in units if u != "skel"]
    tech = []
    if l1:
        tech.append("Verus contracts on functions extracted verbatim by vx (units: %s)" % ", ".join("U-" + u for u in l1))
    if "skel" in units:
        tech.append("Verus contracts on mechanically derived effect skeletons (S-skel)")
    if P.get("kani") or P.get("kani_thorough"):
        tech.append("Kani loop-free harnesses on the real crate")
    checks.append({
        "property_id": pid,
        "quick_cmd": "./check %s --tier quick" % pid,
        "thorough_cmd": "./check %s --tier thorough" % pid,
        "evidence_file": "evidence/%s.json" % pid,
        "replay_cmd_template": "./check --replay {path}",
        "engine": "vx+verus",
        "level_claimed": {"category": P.get("level", "other"), "text": P.get("level_text", P.get("explanation", "")), "design_ref": "DESIGN.md §5 " + pid},
        "level_note": P.get("level_note", "trusted base is collected mechanically into evidence coverage.trusted_base; see DESIGN.md §8"),
        "technique": "contract-based deductive verification: " + "; ".join(tech),
    })
m = {
    "version": 1,
    "setup_cmd": "cd tools/vx && CARGO_NET_OFFLINE=true cargo build --release --offline",
    "hooks": {
        "guard": "none (no hook or instrumentation exists in /repo: Verus works on text extracted from the working tree; Kani/replay modules are appended to a scratch copy under cfg(kani)/cfg(test))",
        "enable": "n/a",
        "baseline_off_cmd": "cd /repo && cargo test --workspace --no-fail-fast --offline",
        "source_commits": d.get("fix_commits", []),
        "add_only": True,
    },
    "engines": [
        {"name": "vx", "path": "tools/vx", "serves_properties": [c["property_id"] for c in checks], "kind_free_text": "syn-based extractor: cuts the named functions out of /repo by source span on every run, applies the declared rewrites, weaves contracts from contracts/, derives effect skeletons (L2)"},
        {"name": "verus", "path": "/usr/local/bin/verus", "serves_properties": [c["property_id"] for c in checks], "kind_free_text": "Verus 0.2026.09.13 (Z3): discharges every obligation function by function"},
    ],
    "checks": checks,
    "not_applicable": na,
    "notes": "exit codes: 0 held (KNOWN-FINDING lines for listed findings), 1 VIOLATION, 2 UNDECIDED (extraction problem / tool limit; never an alarm). Known findings: known_findings.jsonl. Seeded changes used to test the checks: seeded/.",
}
json.dump(m, open(os.path.join(ROOT, "MANIFEST.json"), "w"), indent=1)
print("MANIFEST.json: %d checks, %d not_applicable" % (len(checks), len(na)))
