"""Per-property decision: run the property's units, classify, write evidence + replay files."""
import os, sys, json, time, tempfile, shutil, subprocess, concurrent.futures as cf

ROOT = os.path.dirname(os.path.dirname(os.path.abspath(__file__)))


def kf_match(kf, pid, ob_id, site_text=""):
    for k in kf:
        if k.get("status") != "known":
            continue
        if k.get("property") != pid:
            continue
        if k.get("obligation") == ob_id:
            sites = k.get("site_contains")
            if not sites or any(s in (site_text or "") for s in sites):
                return k
    return None


import fnmatch


def owned_elsewhere(props, pid, ob_id):
    """An obligation matching an `owners` pattern counts only for the properties listed there."""
    for pat, owners in props.get("owners", {}).items():
        if fnmatch.fnmatch(ob_id, pat):
            return pid not in owners
    return False


def decide(pid, props, tier, seed, run_unit, known):
    t0 = time.time()
    P = props["properties"][pid]
    units = list(P.get("units", []))
    if tier == "thorough":
        units += [u for u in P.get("units_thorough", []) if u not in units]
    scratch_root = os.environ.get("VERIF_SCRATCH") or tempfile.mkdtemp(prefix="verif-%s-" % pid, dir="/var/tmp")
    os.makedirs(scratch_root, exist_ok=True)
    results = []
    try:
        with cf.ThreadPoolExecutor(max_workers=int(os.environ.get("VERIF_JOBS", "6"))) as ex:
            futs = {ex.submit(run_unit, u, scratch_root, tier): u for u in units}
            for f in cf.as_completed(futs):
                results.append(f.result())
        results.sort(key=lambda r: units.index(r["unit"]))
        extra = []
        # Kani harnesses (real crate) where the property uses them
        kani = P.get("kani", []) if tier == "quick" else P.get("kani", []) + P.get("kani_thorough", [])
        if kani:
            import kani_run
            extra.append(kani_run.run_kani(pid, kani, scratch_root, tier))
        # bounded stand-ins for functions outside the verifier's reach (labelled bounded, never counted as proved)
        if P.get("bounded"):
            import bounded_run
            extra.append(bounded_run.run_bounded(pid, P["bounded"], scratch_root, tier))
        # skeleton aspects (L2)
        for a in P.get("aspects", []):
            import skel_run
            extra.append(skel_run.run_aspect(a, scratch_root, tier))
        results += extra
        # optional cvc5 cross-check in thorough tier (warning only)
        warnings = []
        return finish(pid, P, props, tier, seed, results, known, t0, warnings, scratch_root)
    finally:
        if not os.environ.get("VERIF_KEEP_SCRATCH"):
            shutil.rmtree(scratch_root, ignore_errors=True)


def finish(pid, P, props, tier, seed, results, known, t0, warnings, scratch_root):
    violations = []
    known_hits = []
    undecided = []
    obligations = []
    ufilters = P.get("unit_filters", {})

    def in_scope(unit, ob_id):
        # a property may use only part of a unit: `unit_filters` lists the obligation patterns (after `unit::`) it relies on
        pats = ufilters.get(unit)
        if not pats:
            return True
        lab = ob_id.split("::", 1)[1] if "::" in ob_id else ob_id
        return any(fnmatch.fnmatch(lab, pt) for pt in pats)

    for r in results:
        for o in r.get("obligations", []):
            if not owned_elsewhere(props, pid, o["id"]) and in_scope(r["unit"], o["id"]):
                obligations.append(o)
        for u in r.get("undecided", []):
            undecided.append("%s: %s" % (r["unit"], u))
        # a function that the edited source newly calls was taken without a contract: callers cannot be decided
        # (helpers expanded at their call sites, `@@inline`, are exact and need no such caution)
        new_fns = [a.split("\n")[-1] for a in r.get("auto_resolved", []) if a.split("\n")[-1].startswith("@@take") and " fn " in a.split("\n")[-1]]
        if new_fns and r.get("failures"):
            undecided.append("%s: the source now calls function(s) without a contract (%s); %d obligation(s) could not be decided" % (r["unit"], "; ".join(new_fns), len(r["failures"])))
            r = dict(r, failures=[])
        # a closure that the pinned tree does not have and that carries no contract: Verus knows nothing about its result,
        # so failing obligations of the function that contains it are not evidence of a violation
        nc = r.get("new_uncontracted_closures") or []
        if nc and r.get("failures"):
            fns = set(c["fn"] for c in nc)
            hit = [f for f in r["failures"] if str(f.get("function") or "") in fns or any(str(f.get("label") or "").startswith(x + "::") for x in fns)]
            if hit:
                undecided.append("%s: %s now contain(s) a closure without a contract (passed to %s); %d obligation(s) of that function could not be decided" % (
                    r["unit"], ", ".join(sorted(fns)), ", ".join(sorted(set("`%s`" % c["passed_to"] for c in nc))), len(hit)))
                r = dict(r, failures=[f for f in r["failures"] if f not in hit])
        # skeletons of helper functions that are not under contract: obligations failing INSIDE them are violations
        # (an event whose precondition is false); obligations of their callers cannot be decided
        if r.get("auto_skeletons") and r.get("failures"):
            inside = [f for f in r["failures"] if str(f.get("function") or "").startswith("auto:")]
            outside = [f for f in r["failures"] if f not in inside]
            if outside:
                undecided.append("%s: the source now calls helper function(s) that are not under contract (%s); %d caller obligation(s) could not be decided" % (r["unit"], ", ".join(r["auto_skeletons"]), len(outside)))
            r = dict(r, failures=inside)
        for f in r.get("failures", []):
            ob_id = "%s::%s" % (r["unit"], f["label"])
            if owned_elsewhere(props, pid, ob_id) or not in_scope(r["unit"], ob_id):
                continue
            k = kf_match(known, pid, ob_id, (f.get("site_text") or "") + " " + (f.get("site") or ""))
            rec = dict(f)
            rec["obligation"] = ob_id
            rec["unit"] = r["unit"]
            if k:
                known_hits.append((k, rec))
            else:
                violations.append(rec)
    # a known finding listed for this property whose obligation no longer fails: fine (maybe fixed); say so
    out_lines = []
    seen_k = set()
    for k, rec in known_hits:
        key = (k.get("obligation"), k.get("what"))
        if key in seen_k:
            continue
        seen_k.add(key)
        out_lines.append("KNOWN-FINDING: property=%s %s [%s]" % (pid, k.get("what", ""), k.get("obligation")))
    # obligations listed as known findings are reported separately (coverage.known_findings_matched), not counted
    kf_ids = set(rec["obligation"] for _, rec in known_hits)
    obligations = [o for o in obligations if o["id"] not in kf_ids]
    n_ob = len(obligations)
    failed_ids = set(v["obligation"] for v in violations)
    n_dis = len([o for o in obligations if o["discharged"] and o["id"] not in failed_ids])
    wall = time.time() - t0
    level = P.get("level", "proof")
    trusted = []
    for r in results:
        for t in r.get("trusted", []):
            s = "%s: %s" % (r["unit"], t)
            if s not in trusted:
                trusted.append(s)
    trusted += P.get("trusted_extra", [])
    samples = []
    for r in results:
        for fn in r.get("functions", [])[:400]:
            pass
        obs = r.get("obligations", [])
        for o in obs[:6]:
            samples.append({"obligation": o["id"], "discharged": o["discharged"], "backend": r.get("backend")})
    ev = {
        "property_id": pid,
        "tier": tier,
        "seed": seed,
        "level": level,
        "coverage": {
            "obligations": n_ob,
            "discharged": n_dis,
            "checker_cmd": " ;; ".join(r.get("checker_cmd", "") for r in results if r.get("checker_cmd")),
            "trusted_base": trusted,
            "explanation": P.get("explanation", ""),
            "samples": samples[:40],
            "units": [{
                "unit": r["unit"], "status": r["status"], "backend": r.get("backend"),
                "functions_verified": r.get("verified"), "errors": r.get("errors"),
                "smt_ms": r.get("smt_ms"), "wall_s": round(r.get("wall_s", 0), 2),
                "rewrites_applied": r.get("rewrites"), "vacuity": r.get("vacuity"),
                "functions": r.get("functions"),
                "obligation_ids": [o["id"] for o in r.get("obligations", [])],
                "bounded": r.get("bounded"), "cvc5_crosscheck": r.get("cvc5"), "reused": r.get("reused"),
            } for r in results],
            "functions_under_contract": sorted(set("%s::%s" % (r["unit"], f["function"]) for r in results for f in r.get("functions", []) if f.get("mode") in ("exec", "kani", "skel"))),
            "known_findings_matched": [k.get("obligation") for k, _ in known_hits],
            "undecided": undecided,
            "warnings": warnings,
            "not_decided": P.get("not_decided", []),
            "bounded_standins": [b for r in results if r["unit"] == "B-bounded" for b in (r.get("bounded") or [])],
        },
        "assumptions": P.get("assumptions", []) + ["see coverage.trusted_base for the mechanically collected list of assumed specifications and stubs"],
        "wall_s": round(wall, 2),
        "violations": len(violations),
    }
    evdir = os.environ.get("VERIF_EVIDENCE_DIR") or os.path.join(ROOT, "evidence")
    os.makedirs(evdir, exist_ok=True)
    with open(os.path.join(evdir, pid + ".json"), "w") as f:
        json.dump(ev, f, indent=1)
    for l in out_lines:
        print(l)
    if violations:
        rdir = os.environ.get("VERIF_REPLAY_DIR") or os.path.join(ROOT, "replay")
        os.makedirs(rdir, exist_ok=True)
        rp = os.path.join(rdir, "%s-%d.json" % (pid, int(time.time())))
        witness = None
        for v in violations:
            if v.get("witness"):
                witness = v["witness"]
                break
        if witness is None:
            try:
                import witness as W
                witness = W.search(pid, violations, seed, tier)
            except Exception as e:  # witness search is best effort
                witness = None
        with open(rp, "w") as f:
            json.dump({"property": pid, "tier": tier, "failed_obligations": violations,
                       "witness": witness,
                       "units": sorted(set(v["unit"] for v in violations)),
                       "how_to_replay": "./check --replay %s" % rp}, f, indent=1)
        suffix = "" if witness else " no-failing-input-found"
        for v in violations[:8]:
            print("  failed obligation %s at %s: %s" % (v["obligation"], v.get("site"), v["message"]))
        print("VIOLATION property=%s replay=%s%s" % (pid, rp, suffix))
        return 1
    if undecided and os.environ.get("VERIF_NO_WITNESS") != "1":
        # the verifier could not decide (lost anchor, unsupported construct, ...): look for a concrete failing input on
        # the real code with the executable-oracle tests of the undecided units. A failing input is a violation with a
        # witness; no failing input leaves the outcome UNDECIDED.
        try:
            import witness as W
            und_units = sorted(set(u.split(":", 1)[0] for u in undecided))
            w = W.search(pid, [{"unit": u} for u in und_units], seed, tier)
        except Exception:
            w = None
        if w:
            rdir = os.environ.get("VERIF_REPLAY_DIR") or os.path.join(ROOT, "replay")
            os.makedirs(rdir, exist_ok=True)
            rp = os.path.join(rdir, "%s-%d.json" % (pid, int(time.time())))
            ob = "%s::undecided-by-verifier::witness[%s]" % (und_units[0] if und_units else "?", w.get("test"))
            with open(rp, "w") as f:
                json.dump({"property": pid, "tier": tier, "failed_obligations": [{"obligation": ob, "message": "verifier undecided (%s); a concrete failing input was found on the real code" % "; ".join(undecided)[:600]}],
                           "witness": w, "units": und_units, "how_to_replay": w.get("cmd")}, f, indent=1)
            print("  verifier undecided (%s)" % "; ".join(undecided)[:300])
            print("  concrete failing input found by %s: %s" % (w.get("test"), (w.get("failing_input") or "")[:300].replace("\n", " ")))
            print("VIOLATION property=%s replay=%s" % (pid, rp))
            return 1
    if undecided:
        for u in undecided[:10]:
            print("UNDECIDED property=%s reason=%s" % (pid, u[:500]))
        return 2
    print("HELD property=%s obligations=%d discharged=%d units=%s wall=%.1fs" % (pid, n_ob, n_dis, ",".join(r["unit"] for r in results), wall))
    return 0
