#!/bin/bash
# Run every kept seeded change (seeded/<id>/patch.diff) against the check of the property it breaks, each in its own scratch
# worktree (VERIF_REPO), four at a time, and write seeded/RESULTS.tsv: id, property, outcome, failing obligations.
# Usage: tools/seed_sweep.sh [ids…]   (no ids: all, RESULTS.tsv rewritten)
ROOT=$(cd "$(dirname "$0")/.." && pwd)
out=${SWEEP_OUT:-$ROOT/seeded/RESULTS.tsv}
ids="$@"; [ -z "$ids" ] && { ids=$(ls -d $ROOT/seeded/C*/ | xargs -n1 basename); : > $out; }
run_one() {
  id=$1; d=$ROOT/seeded/$id; W=/tmp/sw-$id
  [ -f $d/patch.diff ] || return
  git -C /repo worktree remove --force $W 2>/dev/null; git -C /repo worktree add -q --detach $W HEAD || return
  prop=$(python3 -c "import json;print(json.load(open('$d/meta.json'))['breaks_property'])")
  (cd $W && git apply $d/patch.diff) || { echo -e "$id\t$prop\tPATCH-DOES-NOT-APPLY\t" >> $out; git -C /repo worktree remove --force $W; return; }
  export VERIF_REPO=$W VERIF_EVIDENCE_DIR=/var/tmp/sw-ev-$id VERIF_REPLAY_DIR=/var/tmp/sw-rp-$id VERIF_JOBS=3 VERIF_WITNESS_TARGET=/var/tmp/witness-target
  r=$(cd $ROOT && ./check $prop 2>&1)
  oc=$(echo "$r" | grep -oE "^(HELD|VIOLATION|UNDECIDED)" | tail -1)
  obs=$(echo "$r" | grep -oE "failed obligation [^ ]+" | sed 's/failed obligation //' | sort -u | tr '\n' ' ')
  wit=$(echo "$r" | grep -oE "concrete failing input found by [a-z_]+" | head -1)
  und=$(echo "$r" | grep -E "^UNDECIDED" | head -1 | cut -c1-160)
  echo -e "$id\t$prop\t$oc\t$obs$wit$und" >> $out
  git -C /repo worktree remove --force $W; rm -rf /var/tmp/sw-ev-$id /var/tmp/sw-rp-$id
}
export -f run_one; export out ROOT
echo $ids | tr ' ' '\n' | xargs -P ${SWEEP_PAR:-4} -I{} bash -c 'run_one {}'
sort -o $out $out
echo SWEEPDONE >> $out
