#!/bin/bash
# Run every kept seeded change (seeded/<id>/patch.diff) against the check of the property it breaks, in a scratch
# worktree (VERIF_REPO), and write seeded/RESULTS.tsv: id, property, outcome, failing obligations.
W=/tmp/sweep-wt
git -C /repo worktree remove --force $W 2>/dev/null; git -C /repo worktree add -q --detach $W HEAD || exit 1
export VERIF_REPO=$W VERIF_EVIDENCE_DIR=/var/tmp/sweep-evidence VERIF_REPLAY_DIR=/var/tmp/sweep-replay
out=/verif/seeded/RESULTS.tsv; : > $out
for d in /verif/seeded/*/; do
  id=$(basename $d); [ -f $d/patch.diff ] || continue
  prop=$(python3 -c "import json;print(json.load(open('$d/meta.json'))['breaks_property'])")
  props="$prop $(python3 -c "import json;print(' '.join(json.load(open('$d/meta.json')).get('also_check',[])))")"
  (cd $W && git checkout -q -- . && git clean -fdq && git apply $d/patch.diff) || { echo -e "$id\t$prop\tPATCH-DOES-NOT-APPLY\t" >> $out; continue; }
  for p in $props; do
    r=$(cd /verif && ./check $p 2>&1)
    oc=$(echo "$r" | grep -oE "^(HELD|VIOLATION|UNDECIDED)" | tail -1)
    obs=$(echo "$r" | grep -oE "failed obligation [^ ]+" | sed 's/failed obligation //' | sort -u | tr '\n' ' ')
    und=$(echo "$r" | grep -E "^UNDECIDED" | head -1 | cut -c1-160)
    echo -e "$id\t$p\t$oc\t$obs$und" >> $out
  done
done
(cd $W && git checkout -q -- .); git -C /repo worktree remove --force $W
echo SWEEPDONE >> $out
