"""Bounded stand-ins: run the tests of contracts/bounded/verif_bounded.rs listed for a property on a scratch copy of the
current tree. They are labelled bounded in the evidence and never counted as proved obligations."""
import os, subprocess, tempfile, shutil, re, time

ROOT = os.path.dirname(os.path.dirname(os.path.abspath(__file__)))
BOUNDS = {
    "bounded_recompute_stats_small_scope": "every assignment of 4 keys to {absent, 3 hashes} (256 states)",
    "bounded_remove_range_bounds": "5 present keys in 0..6; every pair of Included/Excluded/Unbounded bounds with values 0..7",
    "bounded_blob_path_decoder_total_and_bijective": "300 random hashes; all 3-way splits at offsets 0..8 x {lower, upper, one junk char}; 6 degenerate paths",
    "bounded_snapshot_roundtrip_key_types": "fixed key sets for u64/i32/String/Vec<u8>/[u8;4] incl. byte-order crossings; one integer-keyed store reopened",
    "bounded_key_bytes_string_vec": "5 strings, invalid UTF-8, 4 byte vectors",
    "bounded_scan_orphans_exact_and_cleanup": "one store with one instance of each reported category",
    "bounded_cas_path_under_non_utf8_root": "one non-UTF-8 root",
    "bounded_chunked_write_matches_whole": "14 chunkings, contents up to ~10 MiB, chunk sizes {0,1,7,4095..8193,64Ki,1Mi,4Mi,5Mi}",
    "bounded_blob_hash_eq_is_bytewise": "64 random hashes x 32 single-byte difference positions",
}


def run_bounded(pid, tests, scratch, tier):
    repo = os.environ.get("VERIF_REPO", "/repo")
    t0 = time.time()
    res = {"unit": "B-bounded", "status": "ok", "failures": [], "undecided": [], "functions": [], "obligations": [], "trusted": [],
           "backend": "cargo test (bounded stand-in, NOT a proof)", "checker_cmd": "", "bounded": [], "wall_s": 0, "smt_ms": 0, "verified": 0, "errors": 0, "rewrites": {}}
    d = os.path.join(scratch, "bounded-crate")
    try:
        subprocess.run(["rsync", "-a", "--exclude", "target", "--exclude", ".git", repo + "/", d + "/"], check=True)
        shutil.copy(os.path.join(ROOT, "contracts/bounded/verif_bounded.rs"), os.path.join(d, "src/verif_bounded.rs"))
        with open(os.path.join(d, "src/lib.rs"), "a") as f:
            f.write("\n#[cfg(test)]\nmod verif_bounded;\n")
        with open(os.path.join(d, "src/index/mod.rs"), "a") as f:
            f.write("\n#[cfg(test)]\npub(crate) use self::state::IndexState as IndexStateForWitness;\n")
        env = dict(os.environ, CARGO_NET_OFFLINE="true", CARGO_TARGET_DIR=os.environ.get("VERIF_BOUNDED_TARGET", "/var/tmp/verif-bounded-target"))
        cmd = ["cargo", "test", "--offline", "--lib", "verif_bounded::", "--", "--test-threads", "8"] + []
        res["checker_cmd"] = "CARGO_NET_OFFLINE=true cargo test --offline --lib verif_bounded::   (scratch copy of the tree + contracts/bounded/verif_bounded.rs)"
        p = subprocess.run(cmd, cwd=d, env=env, capture_output=True, text=True, timeout=int(os.environ.get("VERIF_BOUNDED_TIMEOUT", "1500")))
        out = p.stdout + "\n" + p.stderr
        if "test result" not in out:
            res["undecided"].append("bounded stand-ins did not build/run: " + out[-600:].replace("\n", " | "))
        else:
            for t in tests:
                m = re.search(r"test verif_bounded::%s \.\.\. (\w+)" % re.escape(t), out)
                st = m.group(1) if m else None
                res["functions"].append({"function": t, "mode": "bounded", "ok": st == "ok", "bound": BOUNDS.get(t, "")})
                res["bounded"].append({"test": t, "bound": BOUNDS.get(t, ""), "passed": st == "ok"})
                if st == "FAILED":
                    mm = re.search(r"---- verif_bounded::%s stdout ----\n(.*?)(?:\n\n|\nstack backtrace|\nnote:)" % re.escape(t), out, re.S)
                    msg = (mm.group(1) if mm else "")[:1500]
                    res["failures"].append({"message": "bounded stand-in failed", "function": t, "label": "bounded::%s" % t, "site": "contracts/bounded/verif_bounded.rs",
                                            "site_text": t, "clause": BOUNDS.get(t, ""),
                                            "witness": {"engine": "bounded stand-in on the real crate", "test": t, "failing_input": msg,
                                                        "cmd": "copy /repo, add contracts/bounded/verif_bounded.rs as `#[cfg(test)] mod verif_bounded;` and run: cargo test --offline --lib verif_bounded::%s" % t}})
                elif st is None:
                    res["undecided"].append("bounded stand-in %s did not run" % t)
    except subprocess.TimeoutExpired:
        res["undecided"].append("bounded stand-ins: timeout")
    except Exception as e:
        res["undecided"].append("bounded runner: %r" % (e,))
    if res["failures"]:
        res["status"] = "fail"
    elif res["undecided"]:
        res["status"] = "undecided"
    res["wall_s"] = time.time() - t0
    return res
