"""Bounded stand-ins: run the tests of contracts/bounded/verif_bounded.rs listed for a property on a scratch copy of the
current tree. They are labelled bounded in the evidence and never counted as proved obligations."""
import os, subprocess, tempfile, shutil, re, time, json

ROOT = os.path.dirname(os.path.dirname(os.path.abspath(__file__)))
BOUNDS = {
    "bounded_reported_stats_match_index_after_failed_cleanup": "one store, three histories (overwrite / remove / range removal) whose released blob cannot be unlinked",
    "bounded_recompute_stats_small_scope": "every assignment of 4 keys to {absent, 3 hashes} (256 states)",
    "bounded_remove_range_bounds": "5 present keys in 0..6; every pair of Included/Excluded/Unbounded bounds with values 0..7",
    "bounded_blob_path_decoder_total_and_bijective": "300 random hashes; all 3-way splits at offsets 0..8 x {lower, upper, one junk char}; 6 degenerate paths",
    "bounded_snapshot_roundtrip_key_types": "fixed key sets for u64/i32/String/Vec<u8>/[u8;4] incl. byte-order crossings; one integer-keyed store reopened",
    "bounded_key_bytes_string_vec": "5 strings, invalid UTF-8, 4 byte vectors",
    "bounded_scan_orphans_exact_and_cleanup": "one store with one instance of each reported category",
    "bounded_cas_path_under_non_utf8_root": "one non-UTF-8 root",
    "bounded_chunked_write_matches_whole": "24 chunkings, contents up to 12 MiB, chunk sizes {0,1,7,4095..8193,64Ki,1Mi,2Mi,4Mi,5Mi,8Mi} incl. round sizes in one call; the chunkings up to 2 MiB again with 5 degenerate byte patterns (all zero, all 0xFF, zero-filled last / first / alternating chunks)",
    "bounded_discover_segments_numeric_order": "11 segment ids incl. 9/10, 99/100, u64::MAX in shuffled creation order + 6 non-segment names",
    "bounded_bulk_delete_reclaims_every_blob": "batches of {1,2,3,5,255,256,257,258,259} distinct blobs",
    "bounded_overlapping_readers_stream_whole_blob": "one blob of 64 KiB + 123 bytes, three overlapping readers + range reads; BufRead consumers on 13 blob sizes 0..8193",
    "bounded_transactions_are_independent": "abandoned transaction before a put; two interleaved transactions; empty blob",
    "bounded_reopen_with_undecodable_snapshot_key": "one snapshot with a non-UTF-8 byte-string key reopened with String keys",
    "bounded_dirlock_held_through_operations": "one store; second open attempted after 6 kinds of activity while a handle is alive",
    "bounded_key_bytes_integers": "exhaustive u8/i8/u16/i16; 20,000 values incl. boundaries for u32..i128 and [u8;16], [u8;32]",
    "bounded_cleanup_removes_non_regular_strays": "one store with a stray socket, a stray symlink to a directory and a stray regular file",
    "bounded_scan_exact_for_large_index": "2,060 keys with distinct contents; 12 blob files removed at positions around 512/1024/2048",
    "bounded_cas_files_named_after_their_bytes_on_shard_boundaries": "5 blobs on neighbouring shard boundaries found by brute force",
    "bounded_failed_blob_unlink_is_contained": "one failing unlink of an unreferenced blob (path turned into a directory), then a re-put of the same content, 5 further blob-deleting operations, one reopen",
    "bounded_large_log_records_survive_reopen_and_stay_checked": "log records from 45 B to 6 MB (keys of 0..5,000,000 bytes, one Remove of all), two kill images + clean reopen, 5 single-byte changes behind the largest record",
    "bounded_failed_append_version_gap_survives_restarts": "one failed WAL append right after a reopen (EISDIR on the segment path), x {checkpoint, none} x {1, 3} later puts, two further reopens",
    "bounded_single_io_fault_is_contained": "5 single faults (WAL append after a mid-segment reopen; snapshot write with / without an earlier snapshot / on a brand-new store; staging write), EFBIG via RLIMIT_FSIZE in a child process",
    "bounded_cleanup_of_staging_leftover_alone": "one store whose only garbage is one staging file of a crashed transaction",
    "bounded_settings_version_gate": "11 foreign or malformed stored version values incl. 2^32+v and 2^64-1",
    "bounded_failed_rollover_leaves_well_formed_log": "N=4; two failed rollovers, heal, two puts, restart; independent decoder after each phase",
    "bounded_every_call_returns_on_segment_boundaries": "one thread, N=2, 60 operations of 5 kinds on segment boundaries, watchdog 120 s",
    "bounded_cleanup_spares_inflight_transaction": "one store, one transaction in flight during clean-up",
    "bounded_range_reads_boundary_triples": "8 blob lengths x 10x10 (start, end) pairs incl. 2^32, 2^63, 2^64-2, 2^64-1",
    "bounded_reopen_equivalence_small_histories": "every history of <= 4 steps (N=2) and <= 3 steps (N=3) over 7 operations (2 keys, 2 contents): kill-copy and clean reopen compared with the live state",
    "bounded_blob_hash_eq_is_bytewise": "64 random hashes x 32 single-byte difference positions",
}


def run_bounded(pid, tests, scratch, tier):
    repo = os.environ.get("VERIF_REPO", "/repo")
    t0 = time.time()
    res = {"unit": "B-bounded", "status": "ok", "failures": [], "undecided": [], "functions": [], "obligations": [], "trusted": [],
           "backend": "cargo test (bounded stand-in, NOT a proof)", "checker_cmd": "", "bounded": [], "wall_s": 0, "smt_ms": 0, "verified": 0, "errors": 0, "rewrites": {}}
    import hashlib, fcntl
    try:
        # the scratch copy is keyed by the content of the tree + the stand-in module, so that the checks of several
        # properties on the same tree share one build (nothing is reused across different trees)
        hsh = hashlib.sha256()
        files = []
        for base, rel in ((repo, "src"), (repo, "Cargo.toml"), (repo, "Cargo.lock"), (ROOT, "contracts/bounded/verif_bounded.rs"), (ROOT, "tools/bounded_run.py")):
            pth = os.path.join(base, rel)
            if os.path.isdir(pth):
                for dp, dn, fn in os.walk(pth):
                    dn.sort()
                    for f in sorted(fn):
                        files.append(os.path.join(dp, f))
            elif os.path.exists(pth):
                files.append(pth)
        for f in files:
            hsh.update(os.path.relpath(f, "/").encode()); hsh.update(b"\0"); hsh.update(open(f, "rb").read())
        key = hsh.hexdigest()[:20]
        broot = os.environ.get("VERIF_BOUNDED_ROOT", "/var/tmp/verif-bounded")
        os.makedirs(broot, exist_ok=True)
        d = os.path.join(broot, key, "crate")
        lockf = open(os.path.join(broot, "lock"), "w")
        fcntl.flock(lockf, fcntl.LOCK_EX)
        if not os.path.exists(os.path.join(d, ".ready")):
            shutil.rmtree(os.path.join(broot, key), ignore_errors=True)
            os.makedirs(d)
            subprocess.run(["rsync", "-a", "--exclude", "target", "--exclude", ".git", repo + "/", d + "/"], check=True)
            shutil.copy(os.path.join(ROOT, "contracts/bounded/verif_bounded.rs"), os.path.join(d, "src/verif_bounded.rs"))
            with open(os.path.join(d, "src/lib.rs"), "a") as f:
                f.write("\n#[cfg(test)]\nmod verif_bounded;\n")
            with open(os.path.join(d, "src/index/mod.rs"), "a") as f:
                f.write("\n#[cfg(test)]\npub(crate) use self::state::IndexState as IndexStateForWitness;\n")
            with open(os.path.join(d, "src/wal/mod.rs"), "a") as f:
                f.write("\n#[cfg(test)]\npub(crate) fn storage_for_verif(p: crate::paths::DbPaths) -> self::storage::SegmentStorage { self::storage::SegmentStorage::new(p) }\n")
            open(os.path.join(d, ".ready"), "w").write("ok")
            # keep the three most recent copies
            olds = sorted([x for x in os.listdir(broot) if os.path.isdir(os.path.join(broot, x))], key=lambda x: os.path.getmtime(os.path.join(broot, x)))
            for x in olds[:-3]:
                shutil.rmtree(os.path.join(broot, x), ignore_errors=True)
        env = dict(os.environ, CARGO_NET_OFFLINE="true", CARGO_TARGET_DIR=os.environ.get("VERIF_BOUNDED_TARGET", "/var/tmp/verif-bounded-target"))
        cmd = ["cargo", "test", "--offline", "--lib", "--"] + ["verif_bounded::" + t for t in tests] + ["--exact", "--test-threads", "1"]
        res["checker_cmd"] = "CARGO_NET_OFFLINE=true cargo test --offline --lib -- " + " ".join("verif_bounded::" + t for t in tests) + " --exact   (scratch copy of the current tree + contracts/bounded/verif_bounded.rs appended as a test module)"
        # results of stand-ins are shared between the properties that list them (same tree content => same key; 2 h)
        rfile = os.path.join(broot, key, "results.json")
        cached = {}
        try:
            if os.environ.get("VERIF_NO_CACHE") != "1" and os.path.exists(rfile) and time.time() - os.path.getmtime(rfile) < int(os.environ.get("VERIF_CACHE_MAX_AGE", "7200")):
                cached = json.load(open(rfile))
        except Exception:
            cached = {}
        need = [t for t in tests if cached.get(t, {}).get("status") != "ok"]
        cmd = ["cargo", "test", "--offline", "--lib", "--"] + ["verif_bounded::" + t for t in need] + ["--exact", "--test-threads", "1"]
        if not need:
            cmd = ["true"]
        p = subprocess.run(cmd, cwd=d, env=env, capture_output=True, text=True, timeout=int(os.environ.get("VERIF_BOUNDED_TIMEOUT", "1500")))
        out = p.stdout + "\n" + p.stderr
        fcntl.flock(lockf, fcntl.LOCK_UN)
        if not need:
            out = "test result: ok (all reused)\n"
        for t in tests:
            if t not in need:
                out += "\ntest verif_bounded::%s ... ok\n" % t
        try:
            for t in need:
                m_ = re.search(r"test verif_bounded::%s \.\.\. (\w+)" % re.escape(t), out)
                if m_ and m_.group(1) == "ok":
                    cached[t] = {"status": "ok", "at": time.time()}
            json.dump(cached, open(rfile, "w"))
        except Exception:
            pass
        if "test result" not in out:
            res["undecided"].append("bounded stand-ins did not build/run: " + out[-600:].replace("\n", " | "))
        else:
            for t in tests:
                m = re.search(r"test verif_bounded::%s \.\.\. (\w+)" % re.escape(t), out)
                st = m.group(1) if m else None
                res["functions"].append({"function": t, "mode": "bounded", "ok": st == "ok", "bound": BOUNDS.get(t, "")})
                res["bounded"].append({"test": t, "bound": BOUNDS.get(t, ""), "passed": st == "ok"})
                if st == "FAILED":
                    mm = re.search(r"---- verif_bounded::%s stdout ----\n(.*?)(?:\n\n|\nstack backtrace|\nnote:)" % re.escape(t), out, re.S)
                    msg = (mm.group(1) if mm else "")[:1500]
                    res["failures"].append({"message": "bounded stand-in failed", "function": t, "label": "bounded::%s" % t, "site": "contracts/bounded/verif_bounded.rs",
                                            "site_text": t, "clause": BOUNDS.get(t, ""),
                                            "witness": {"engine": "bounded stand-in on the real crate", "test": t, "failing_input": msg,
                                                        "cmd": "copy /repo, add contracts/bounded/verif_bounded.rs as `#[cfg(test)] mod verif_bounded;` and run: cargo test --offline --lib verif_bounded::%s" % t}})
                elif st is None:
                    res["undecided"].append("bounded stand-in %s did not run" % t)
    except subprocess.TimeoutExpired:
        res["undecided"].append("bounded stand-ins: timeout")
    except Exception as e:
        res["undecided"].append("bounded runner: %r" % (e,))
    if res["failures"]:
        res["status"] = "fail"
    elif res["undecided"]:
        res["status"] = "undecided"
    res["wall_s"] = time.time() - t0
    return res
