#!/bin/bash
# Confirm seeded changes independently: for each /tmp/seed-<P>/mutants/<n>:
#  (1) demo passes on the current /repo HEAD, (2) with the patch the full suite shows only the 2 baseline
#  failures + the demo failing. Keeps confirmed ones under /verif/seeded/<P>-<n>/. Scratch worktree removed afterwards.
T=${CONFIRM_TAG:-}; export CARGO_NET_OFFLINE=true CARGO_TARGET_DIR=/tmp/confirm-target$T
W=/tmp/confirm-wt$T
for d in "$@"; do
  P=$(basename $(dirname $(dirname $d))); P=${P#seed*-}; n=$(basename $d); n=$((n+${IDOFF:-0})); id="$P-$n"
  out=/verif/seeded/$id; [ -f $out/meta.json ] && { echo "skip $id"; continue; }
  git -C /repo worktree remove --force $W 2>/dev/null; git -C /repo worktree add -q --detach $W HEAD || continue
  cd $W
  log=/tmp/confirm-$id.log; : > $log
  if ! git apply $d/demo.diff 2>>$log; then echo "$id: demo.diff does not apply" | tee -a $log; continue; fi
  demo=$(python3 -c "import json;print(json.load(open('$d/meta.json')).get('demo_test_name','seeded_demo'))" 2>/dev/null); demo=${demo##*::}
  [ -z "$demo" ] && demo=seeded_demo
  case "$demo" in *" "*|*"("*) demo=seeded_demo;; esac
  timeout 1500 cargo test --offline "$demo" >>$log 2>&1; r1=$?
  p1=$(grep -E "^test result" $log | tail -1)
  if ! git apply $d/patch.diff 2>>$log; then
     git apply --3way $d/patch.diff 2>>$log || { echo "$id: patch.diff does not apply" | tee -a $log; continue; }
  fi
  timeout 2400 cargo test --offline >>$log.full 2>&1; r2=$?
  fails=$(grep -E "^test .* FAILED" $log.full | grep -v "^test result" | grep -oE "^test [A-Za-z0-9_:]+" | sed 's/^test //' | sort -u | tr '\n' ' ')
  res=$(grep -E "^test result" $log.full | tail -1)
  echo "$id: demo-alone rc=$r1 [$p1] ; with-patch: [$res] fails: $fails" | tee -a /tmp/confirm-summary.txt
  ok=no
  other=$(echo $fails | tr ' ' '\n' | grep -v seeded_demo | grep -v test_io_error_on_staging_file_creation | grep -v append_op_fails_when_segment_rollover | wc -w)
  ran=$(echo "$p1" | grep -oE "[0-9]+ passed" | grep -oE "[0-9]+")
  if [ $r1 -eq 0 ] && [ "${ran:-0}" -ge 1 ] && echo "$fails" | grep -q seeded_demo && [ $other -eq 0 ] && echo "$fails" | grep -q test_io_error_on_staging_file_creation && echo "$fails" | grep -q append_op_fails_when_segment_rollover; then ok=yes; fi
  if [ $ok = yes ]; then
    mkdir -p $out; cp $d/patch.diff $out/patch.diff; cp $d/demo.diff $out/demo.diff
    # re-generate the patch against the current HEAD (in case of fuzz)
    git diff HEAD -- src ':!src/tests' > $out/patch.diff
    python3 - "$d/meta.json" "$out/meta.json" "$id" "$demo" "$res" "$fails" <<'PY'
import json,sys
src,dst,id_,demo,res,fails=sys.argv[1:7]
m=json.load(open(src))
json.dump({"id":id_,"breaks_property":m.get("property"),"summary":m.get("summary"),"needs_to_manifest":m.get("what_it_needs_to_manifest"),
 "demo_test":demo,"author_commands":m.get("commands_run"),
 "confirmed_by_me":{"tree":"/repo HEAD incl. fix commits, scratch worktree /tmp/confirm-wt (removed)","demo_without_patch":"passed","full_suite_with_patch":res,"failing_tests_with_patch":fails.split(),
   "commands":["git apply demo.diff; cargo test --offline "+demo,"git apply patch.diff; cargo test --offline"]}},open(dst,"w"),indent=1)
PY
  fi
  rm -f $log.full
done
cd /; git -C /repo worktree remove --force $W 2>/dev/null; echo ALLDONE >> /tmp/confirm-summary.txt
