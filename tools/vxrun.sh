#!/bin/bash
# dev helper: extract + verify one unit
u=$1; shift
mkdir -p /var/tmp/vxw
/verif/tools/vx/target/release/vx extract --repo ${REPO:-/repo} --spec /verif/contracts/units/$u.vspec --contracts /verif/contracts --out /var/tmp/vxw/$u.rs --map /var/tmp/vxw/$u.map.json --params-baseline /verif/contracts/param_baseline.json --fn-baseline /verif/contracts/fn_baseline.json || exit 3
cd /var/tmp/vxw && verus $u.rs --edition 2024 "$@" 2>&1 | grep -v "^warning: field" -A0 | grep -vE "inconsistent_fields|syntax will not be available"
