"""Witness search (best effort, NOT the deciding step): after a refuted obligation, run the executable-oracle tests of
contracts/witness/verif_witness.rs that belong to the failing unit against a scratch copy of the current /repo tree.
A failing test is a concrete failing input replayed on the real code; its panic message is stored in the replay file."""
import os, subprocess, tempfile, shutil, re

ROOT = os.path.dirname(os.path.dirname(os.path.abspath(__file__)))
TESTS = {
    "state": ["witness_state_apply_logical_op"],
    "codec": ["witness_codec_wal_op", "witness_codec_index_snapshot_total"],
    "walmgr": ["witness_wal_segment_arithmetic", "witness_wal_damage"],
    "range": ["witness_range_reads"],
    "walio": ["witness_wal_damage"],
    "replay": ["witness_wal_damage"],
    "persist": ["witness_snapshot_reload_refcounts"],
    "applywal": ["witness_state_apply_logical_op"],
    "intents": ["witness_intents_protocol", "witness_inflight_put_protection"],
    "skel": ["witness_inflight_put_protection"],
    "commit": ["witness_inflight_put_protection"],
}


def search(pid, violations, seed, tier):
    if os.environ.get("VERIF_NO_WITNESS") == "1":
        return None
    units = []
    for v in violations:
        u = v.get("unit")
        if u in TESTS and u not in units:
            units.append(u)
    if not units:
        return None
    repo = os.environ.get("VERIF_REPO", "/repo")
    scratch = tempfile.mkdtemp(prefix="verif-witness-", dir="/var/tmp")
    try:
        d = os.path.join(scratch, "crate")
        subprocess.run(["rsync", "-a", "--exclude", "target", "--exclude", ".git", repo + "/", d + "/"], check=True)
        shutil.copy(os.path.join(ROOT, "contracts/witness/verif_witness.rs"), os.path.join(d, "src/verif_witness.rs"))
        with open(os.path.join(d, "src/lib.rs"), "a") as f:
            f.write("\n#[cfg(test)]\nmod verif_witness;\n")
        with open(os.path.join(d, "src/index/mod.rs"), "a") as f:
            f.write("\n#[cfg(test)]\npub(crate) use self::state::IndexState as IndexStateForWitness;\n")
        env = dict(os.environ, CARGO_NET_OFFLINE="true", VERIF_SEED=str(seed),
                   CARGO_TARGET_DIR=os.environ.get("VERIF_WITNESS_TARGET", os.path.join(scratch, "target")))
        tests = []
        for u in units:
            for t in TESTS[u]:
                if t not in tests:
                    tests.append(t)
        budget = 900 if tier == "quick" else 2400
        for t in tests:
            try:
                p = subprocess.run(["cargo", "test", "--offline", "--lib", t, "--", "--nocapture"], cwd=d, env=env,
                                   capture_output=True, text=True, timeout=budget)
            except subprocess.TimeoutExpired:
                continue
            out = p.stdout + "\n" + p.stderr
            if re.search(r"error(\[E\d+\])?:", p.stderr) and "test result" not in out:
                # the witness module does not compile against the edited tree: no witness, not an error of the check
                continue
            if "test result: FAILED" in out or "panicked at" in out:
                m = re.search(r"panicked at [^\n]*\n([^\n]*(?:\n(?!stack backtrace)[^\n]*){0,12})", out)
                msg = (m.group(0) if m else out[-1500:])[:3000]
                return {"engine": "executable-oracle test on the real crate (witness search, seed %s)" % seed, "test": t,
                        "failing_input": msg,
                        "cmd": "copy /repo, add contracts/witness/verif_witness.rs as `#[cfg(test)] mod verif_witness;` (+ the IndexState re-export in src/index/mod.rs) and run: VERIF_SEED=%s cargo test --offline --lib %s" % (seed, t)}
        return None
    finally:
        shutil.rmtree(scratch, ignore_errors=True)
