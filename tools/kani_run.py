"""Run Kani harnesses on a scratch copy of the real crate (contracts/kani/verif_kani.rs appended under cfg(kani))."""
import os, json, subprocess, time, shutil, re, concurrent.futures as cf

ROOT = os.path.dirname(os.path.dirname(os.path.abspath(__file__)))


def run_kani(pid, harnesses, scratch, tier):
    repo = os.environ.get("VERIF_REPO", "/repo")
    d = os.path.join(scratch, "kani-crate")
    t0 = time.time()
    res = {"unit": "K-kani", "status": "ok", "failures": [], "undecided": [], "functions": [], "obligations": [], "trusted": [
        "Kani 0.68 / CBMC soundness", "harness text contracts/kani/verif_kani.rs (appended to a scratch copy of the crate under cfg(kani))"],
        "backend": "kani 0.68.0 (cbmc)", "checker_cmd": "", "bounded": [], "wall_s": 0, "smt_ms": 0, "verified": 0, "errors": 0, "rewrites": {}}
    meta = json.load(open(os.path.join(ROOT, "contracts/kani/harnesses.json")))
    try:
        if os.path.exists(d):
            shutil.rmtree(d)
        subprocess.run(["rsync", "-a", "--exclude", "target", "--exclude", ".git", repo + "/", d + "/"], check=True)
        shutil.copy(os.path.join(ROOT, "contracts/kani/verif_kani.rs"), os.path.join(d, "src/verif_kani.rs"))
        with open(os.path.join(d, "src/lib.rs"), "a") as f:
            f.write("\n#[cfg(kani)]\nmod verif_kani;\n")
        env = dict(os.environ, CARGO_NET_OFFLINE="true", CARGO_TARGET_DIR=os.path.join(scratch, "kani-target"))
        cmd = ["cargo", "kani", "--output-format", "terse", "-j", os.environ.get("VERIF_KANI_JOBS", "8")]
        for h in harnesses:
            cmd += ["--harness", h]
        res["checker_cmd"] = "CARGO_NET_OFFLINE=true " + " ".join(cmd) + "   (in a scratch copy of the crate + mod verif_kani)"
        p = subprocess.run(cmd, cwd=d, env=env, capture_output=True, text=True, timeout=int(os.environ.get("VERIF_KANI_TIMEOUT", "3000")))
        out = p.stdout + "\n" + p.stderr
        # per-harness results: "Checking harness X..." ... "VERIFICATION:- SUCCESSFUL"
        status = {}
        # -j output format: "Thread N: Checking harness X" and summary lines "Verification failed for - X"
        for m in re.finditer(r"Verification failed for - ([\w:]+)", out):
            status[m.group(1).split("::")[-1]] = "FAILED"
        mt = re.search(r"Complete - (\d+) successfully verified harnesses, (\d+) failures, (\d+) total", out)
        for h in harnesses:
            st = status.get(h)
            if st is None and mt and int(mt.group(2)) == 0 and int(mt.group(3)) >= len(harnesses):
                st = "SUCCESSFUL"
            ok = st == "SUCCESSFUL"
            lab = "kani::%s" % h
            bounded = not meta.get(h, {}).get("complete", False)
            if bounded:
                res["bounded"].append(h)
            res["functions"].append({"function": h, "mode": "kani", "ok": ok, "bounded": bounded})
            res["obligations"].append({"id": "K-kani::%s" % lab, "discharged": ok})
            if st == "FAILED":
                res["failures"].append({"message": "Kani: VERIFICATION FAILED", "function": h, "label": lab, "site": "contracts/kani/verif_kani.rs", "site_text": h,
                                        "clause": "harness " + h, "verifier_output": out[-3000:]})
            elif st is None:
                res["undecided"].append("kani: no result for harness %s (build error / timeout?) %s" % (h, out[-400:].replace("\n", " | ")))
        res["verified"] = len([1 for o in res["obligations"] if o["discharged"]])
    except subprocess.TimeoutExpired:
        res["undecided"].append("kani timeout")
    except Exception as e:
        res["undecided"].append("kani runner: %r" % (e,))
    # counterexamples: re-run each failed harness with concrete playback and replay the values on the real crate
    for f in res["failures"]:
        try:
            f["witness"] = playback(f["function"], d, scratch)
        except Exception as e:
            f["witness"] = None
    if res["failures"]:
        res["status"] = "fail"
    elif res["undecided"]:
        res["status"] = "undecided"
    res["wall_s"] = time.time() - t0
    return res


INT = {"u8": 1, "i8": 1, "u16": 2, "i16": 2, "u32": 4, "i32": 4, "u64": 8, "i64": 8, "u128": 16, "i128": 16}


def playback(h, d, scratch):
    """Kani concrete playback -> concrete input bytes -> plain #[test] on the real crate (no Kani) that must fail."""
    env = dict(os.environ, CARGO_NET_OFFLINE="true", CARGO_TARGET_DIR=os.path.join(scratch, "kani-target"))
    p = subprocess.run(["cargo", "kani", "-Z", "concrete-playback", "--concrete-playback=print", "--harness", h], cwd=d, env=env,
                       capture_output=True, text=True, timeout=1200)
    out = p.stdout + p.stderr
    m = re.search(r"let concrete_vals: Vec<Vec<u8>> = vec!\[(.*?)\];", out, re.S)
    if not m:
        return None
    vals = [[int(x) for x in v.split(",") if x.strip()] for v in re.findall(r"vec!\[([0-9, ]*)\]", m.group(1))]
    flat = [b for v in vals for b in v]
    test = None
    km = re.match(r"key_roundtrip_(\w+)$", h)
    if km:
        t = km.group(1)
        if t in INT:
            n = INT[t]
            ctor = "<%s>::from_le_bytes([%s])" % (t, ", ".join(str(b) for b in flat[:n]))
            ty = t
        elif t.startswith("arr"):
            n = int(t[3:])
            ctor = "[%s]" % ", ".join("%du8" % b for b in flat[:n])
            ty = "[u8; %d]" % n
        else:
            return {"concrete_vals": vals}
        test = """
#[cfg(test)]
mod verif_replay {
    use crate::types::KeyBytes;
    #[test]
    fn verif_replay_witness() {
        let x: %s = %s;
        let b = x.to_key_bytes_owned();
        assert_eq!(b.len(), %d, "encoded length");
        assert_eq!(<%s as KeyBytes>::from_key_bytes(&b), Some(x), "key bytes must round-trip");
    }
}
""" % (ty, ctor, n, ty)
    w = {"engine": "kani concrete playback", "harness": h, "concrete_vals": vals}
    if test:
        with open(os.path.join(d, "src/lib.rs"), "a") as f:
            f.write(test)
        env2 = dict(os.environ, CARGO_NET_OFFLINE="true", CARGO_TARGET_DIR=os.path.join(scratch, "replay-target"))
        q = subprocess.run(["cargo", "test", "--offline", "--lib", "verif_replay_witness"], cwd=d, env=env2, capture_output=True, text=True, timeout=1800)
        failed = "FAILED" in q.stdout or "panicked" in q.stdout
        w.update({"replayed_on_real_crate": True, "replay_test_failed": failed, "test": test.strip(),
                  "cmd": "append the test above to src/lib.rs of a copy of /repo and run: cargo test --offline --lib verif_replay_witness",
                  "output": (q.stdout[-1500:] if failed else q.stdout[-500:])})
        if not failed:
            return None
    return w
