#!/bin/bash
# usage: seedtest.sh <patch.diff> <prop> [<prop>...]   — apply a seeded change to /repo, run the checks, undo
p=$1; shift
export VERIF_EVIDENCE_DIR=/var/tmp/seedtest-evidence VERIF_REPLAY_DIR=/var/tmp/seedtest-replay
cd /repo && git apply "$p" || { echo "PATCH DOES NOT APPLY: $p"; exit 9; }
for id in "$@"; do (cd /verif && ./check $id 2>&1 | tail -6); echo "  -> rc=$? for $id"; done
git -C /repo checkout -- . && git -C /repo clean -fdq
