#!/bin/bash
# usage: seedtest.sh <patch.diff> <prop> [<prop>...]   — apply a seeded change to /repo, run the checks, undo
p=$1; shift
cd /repo && git apply "$p" || { echo "PATCH DOES NOT APPLY: $p"; exit 9; }
for id in "$@"; do (cd /verif && ./check $id 2>&1 | tail -6); echo "  -> rc=$? for $id"; done
git -C /repo checkout -- . && git -C /repo clean -fdq
