//! effect-skeleton extraction (L2) — filled in later
use std::collections::BTreeMap;
pub fn do_skel(_args: &BTreeMap<String, String>) -> Result<(), String> { Err("skel: not implemented".into()) }
pub fn do_calls(_args: &BTreeMap<String, String>) -> Result<(), String> { Err("calls: not implemented".into()) }
