//! L2: effect-skeleton extraction (DESIGN.md §3.3).
//!
//! For a function of the real crate, derive — from its AST, on every run — a Verus function over a ghost
//! `World` that has the same control structure (sequence, if/match, loops, `?`/return, block scopes, closure
//! bodies) with every expression replaced by the *events* it performs from a closed alphabet
//! (contracts/skel/effects.cfg): lock acquire/release (guard variables and temporaries are tracked with
//! Rust's drop rules), filesystem primitives with a role taken from the path-producing expression,
//! protocol markers, and calls to other skeletonised functions. Every condition that is not tracked becomes
//! `nondet()`. All data flow is dropped. Every trace of events of the real function is a trace of its
//! skeleton, so an ordering contract proved on the skeleton holds for the function.

use crate::{norm, Src};
use std::collections::BTreeMap;
use syn::spanned::Spanned;

#[derive(Default, Clone)]
pub struct Cfg {
    pub locks: Vec<(String, String, String)>,            // method, recv substring, lock
    pub guardcalls: Vec<(String, String)>,               // method/fn name, lock
    pub primpaths: Vec<(String, String, bool, Vec<usize>)>, // path suffix, event, fallible, role args
    pub primmethods: Vec<(String, String, bool, String)>, // method, event, fallible, role-from (recv|arg0|none)
    pub roles: Vec<(String, String)>,                    // substring, role
    pub markers: Vec<(String, String, String, String)>,  // method, recv substring, event, required substring in call text ("" = none)
    pub calls: Vec<(String, String, String)>,            // method, recv substring, target "Type::fn"
    pub droppables: Vec<(String, String)>,               // producer fn name, drop skeleton target
    pub callbacks: Vec<(String, String)>,                // callee local name (dyn Fn param / closure var), callback event
    pub pure: Vec<String>,                               // allowlisted pure method/function names
    pub tracked: Vec<(String, String)>,                  // condition text -> World bool expression
    pub tracked_arms: Vec<(String, String, String)>,     // scrutinee text, arm pattern prefix, condition
    pub tracked_after: Vec<(String, String)>,            // condition text -> event emitted after the `if` (its then-branch diverges)
    pub exit_markers: Vec<(String, String)>,             // "Type::fn" -> event emitted at successful exits
    pub typed_roles: Vec<(String, String, String)>,      // self type, substring, role (checked before the untyped rules)
    pub strict_exits: Vec<(String, String)>,             // "Type::fn" -> event emitted before a `return Err(..)` literal that is not under a tracked condition
    pub fmtlocks: Vec<(String, String)>,                 // type whose Debug/Display impl takes a lock -> lock (formatting `self` of that type in a macro = acquire + release)
    pub carriers: Vec<(String, String, String, String, String)>, // source file, struct, field name ("*" = any, "0" = tuple field), required type text ("=T" exact), label
}

pub fn load_cfg(path: &str) -> Result<Cfg, String> {
    let t = std::fs::read_to_string(path).map_err(|e| format!("{path}: {e}"))?;
    let mut c = Cfg::default();
    for (n, l) in t.lines().enumerate() {
        let l = l.trim();
        if l.is_empty() || l.starts_with('#') {
            continue;
        }
        let p: Vec<&str> = l.split_whitespace().collect();
        let err = || format!("{}:{}: bad line `{}`", path, n + 1, l);
        match p[0] {
            "lock" if p.len() == 4 => c.locks.push((p[1].into(), p[2].into(), p[3].into())),
            "guardcall" if p.len() == 3 => c.guardcalls.push((p[1].into(), p[2].into())),
            "primpath" if p.len() >= 4 => {
                let args = if p.len() > 4 { p[4].split(',').filter_map(|x| x.parse().ok()).collect() } else { vec![] };
                c.primpaths.push((p[1].into(), p[2].into(), p[3] == "1", args));
            }
            "primmethod" if p.len() == 5 => c.primmethods.push((p[1].into(), p[2].into(), p[3] == "1", p[4].into())),
            "role" if p.len() == 3 => c.roles.push((p[1].into(), p[2].into())),
            "marker" if p.len() >= 4 => c.markers.push((p[1].into(), p[2].into(), p[3].into(), p.get(4).map(|s| s.to_string()).unwrap_or_default())),
            "call" if p.len() == 4 => c.calls.push((p[1].into(), p[2].into(), p[3].into())),
            "droppable" if p.len() == 3 => c.droppables.push((p[1].into(), p[2].into())),
            "callback" if p.len() == 3 => c.callbacks.push((p[1].into(), p[2].into())),
            "pure" => c.pure.extend(p[1..].iter().map(|s| s.to_string())),
            "tracked" if p.len() >= 3 => c.tracked.push((p[1].replace("␣", " "), p[2..].join(" "))),
            "trackedarm" if p.len() >= 4 => c.tracked_arms.push((p[1].replace("␣", " "), p[2].into(), p[3..].join(" "))),
            "trackedafter" if p.len() == 3 => c.tracked_after.push((p[1].replace("␣", " "), p[2].into())),
            "exitmarker" if p.len() == 3 => c.exit_markers.push((p[1].into(), p[2].into())),
            "typedrole" if p.len() == 4 => c.typed_roles.push((p[1].into(), p[2].into(), p[3].into())),
            "strictexit" if p.len() == 3 => c.strict_exits.push((p[1].into(), p[2].into())),
            "fmtlock" if p.len() == 3 => c.fmtlocks.push((p[1].into(), p[2].into())),
            "carrier" if p.len() == 6 => c.carriers.push((p[1].into(), p[2].into(), p[3].into(), p[4].into(), p[5].into())),
            _ => return Err(err()),
        }
    }
    Ok(c)
}

#[derive(Clone, Debug)]
enum AV {
    None,
    Res(String),
    Guard(String),
    Dropper(String, String),
}

#[derive(Clone, Debug)]
enum Bound {
    Lock(String),
    Dropper(String),
}

pub struct Sk<'a> {
    src: &'a Src,
    cfg: &'a Cfg,
    registry: &'a BTreeMap<String, (String, bool)>, // "Type::fn" or "fn" -> (skeleton name, returns result)
    self_ty: String,
    out: Vec<String>,
    ind: usize,
    scopes: Vec<Vec<(String, Bound)>>,
    temps: Vec<Vec<String>>,
    loop_scope_depth: Vec<usize>,
    n: usize,
    ret_result: bool,
    vars: BTreeMap<String, AV>,
    closures: BTreeMap<String, String>,
    pub pending_closures: Vec<(String, String)>, // generated closure skeleton fns (name, text)
    pub errors: Vec<String>,
    pub events: usize,
    loop_invs: BTreeMap<usize, String>,
    loop_counter: usize,
    fname: String,
    drop_self: Option<String>,
    pub unknown_calls: Vec<String>,
    exit_marker: Option<String>,
    /// functions defined in the same source file: name -> (owner type or "", returns Result)
    local_fns: &'a BTreeMap<String, Vec<(String, bool)>>,
    /// helper functions of the same file that are called but not registered: skeletonised on the fly (no contract)
    pub auto_requests: Vec<(String, String)>,
    /// inline frames: a helper of the same file that is not under contract is expanded at its call site
    inl: Vec<InlFrame>,
    inline_stack: Vec<String>,
    inline_failed: bool,
    ret_count: usize,
    pub inlined: Vec<String>,
    /// for each enclosing conditional: is its condition explained (tracked World condition / result of an event)?
    cond_explained: Vec<bool>,
    arm_explained: bool,
    last_role: Option<String>,
    var_roles: BTreeMap<String, String>,
    soft_errors: Vec<(String, String)>,
    /// key ("Type::fn") of the function being skeletonised (not changed by inlining)
    top_key: String,
}

#[derive(Clone)]
struct InlFrame { done: String, ret: String, scope_base: usize, temps_base: usize, loop_base: usize, ret_result: bool }

/// functions of the crate that do not exist on the pinned tree (name not in the committed baseline), with the file that
/// defines them: a call to one of them from a skeletonised function is expanded across files
pub struct NewFn { pub name: String, pub owner: String, pub retres: bool, pub src: &'static Src, pub local_fns: &'static BTreeMap<String, Vec<(String, bool)>> }
thread_local! { pub static NEW_FNS: std::cell::RefCell<Vec<&'static NewFn>> = const { std::cell::RefCell::new(Vec::new()) }; }

/// `pat` with `*` = any run of identifier characters (possibly empty); everything else literal
fn glob_ident(pat: &str, text: &str) -> bool {
    fn rec(p: &[char], t: &[char]) -> bool {
        match p.first() {
            None => t.is_empty(),
            Some('*') => {
                if rec(&p[1..], t) { return true; }
                match t.first() { Some(c) if c.is_alphanumeric() || *c == '_' => rec(p, &t[1..]), _ => false }
            }
            Some(c) => t.first() == Some(c) && rec(&p[1..], &t[1..]),
        }
    }
    let p: Vec<char> = pat.chars().collect();
    let t: Vec<char> = text.chars().collect();
    rec(&p, &t)
}

fn last_seg(p: &syn::Path) -> String {
    p.segments.last().map(|s| s.ident.to_string()).unwrap_or_default()
}
fn path_str(p: &syn::Path) -> String {
    p.segments.iter().map(|s| s.ident.to_string()).collect::<Vec<_>>().join("::")
}

impl<'a> Sk<'a> {
    fn emit(&mut self, s: &str) {
        self.out.push(format!("{}{}", "    ".repeat(self.ind), s));
    }
    fn fresh(&mut self, p: &str) -> String {
        self.n += 1;
        format!("{}{}", p, self.n)
    }
    fn text<S: Spanned>(&self, s: &S) -> String {
        norm(self.src.slice(self.src.range(s)))
    }
    fn line<S: Spanned>(&self, s: &S) -> usize {
        self.src.line_of(self.src.range(s).0)
    }
    fn role_of(&mut self, t: &str, at: usize) -> String {
        for (ty, sub, r) in &self.cfg.typed_roles {
            if *ty == self.self_ty && t.contains(sub.as_str()) {
                self.last_role = Some(format!("Role::{}", r));
                return format!("Role::{}", r);
            }
        }
        for (sub, r) in &self.cfg.roles {
            let hit = match sub.strip_prefix('=') {
                Some(exact) => t.trim_start_matches('&') == exact,
                None => t.contains(sub.as_str()),
            };
            if hit {
                self.last_role = Some(format!("Role::{}", r));
                return format!("Role::{}", r);
            }
        }
        // a local that was bound from an open/create of a path with a known role is a handle to that file
        let key = t.trim_start_matches('&').trim_start_matches("mut ").trim();
        if let Some(r) = self.var_roles.get(key).cloned() {
            return r;
        }
        self.errors.push(format!("{}:{}: cannot assign a filesystem role to `{}` (skeleton alphabet is closed)", self.src.rel, at, t));
        "Role::UNKNOWN".into()
    }
    fn rel_lock(&mut self, l: &str) {
        self.emit(&format!("rel_{}(w);", l.to_lowercase()));
        self.events += 1;
    }
    fn release_bound(&mut self, b: &Bound) {
        match b {
            Bound::Lock(l) => self.rel_lock(l),
            Bound::Dropper(f) => {
                self.emit(&format!("{}(w);", f));
                self.events += 1;
            }
        }
    }
    /// release everything down to (and including) scope index `down_to`
    fn cleanup(&mut self, down_to: usize) {
        let tb = self.inl.last().map(|f| f.temps_base).unwrap_or(0);
        let temps: Vec<String> = self.temps[tb.min(self.temps.len())..].iter().rev().flat_map(|v| v.iter().rev().cloned()).collect();
        for l in temps {
            self.rel_lock(&l);
        }
        let scopes = self.scopes.clone();
        for sc in scopes[down_to..].iter().rev() {
            for (_, b) in sc.iter().rev() {
                self.release_bound(b);
            }
        }
    }
    fn do_return(&mut self, av: &AV) {
        self.ret_count += 1;
        if let Some(fr) = self.inl.last().cloned() {
            // early return of an inlined helper: release what the helper holds, record the result, skip the rest
            self.cleanup(fr.scope_base);
            if fr.ret_result {
                let v = match av { AV::Res(v) => v.clone(), _ => "nondet()".to_string() };
                self.emit(&format!("{} = {};", fr.ret, v));
            }
            self.emit(&format!("{} = true;", fr.done));
            if self.loop_scope_depth.len() > fr.loop_base {
                self.emit("break;");
            }
            return;
        }
        self.cleanup(0);
        if let Some(ds) = self.drop_self.clone() {
            self.emit(&format!("{}(w);", ds));
        }
        if self.ret_result {
            let v = match av {
                AV::Res(v) => v.clone(),
                _ => "nondet()".to_string(),
            };
            if let Some(ev) = self.exit_marker.clone() {
                let t = self.fresh("rv");
                self.emit(&format!("let {} = {};", t, v));
                self.emit(&format!("if {} {{ ev_{}(w); }}", t, ev));
                self.emit(&format!("return {};", t));
                return;
            }
            self.emit(&format!("return {};", v));
        } else {
            if let Some(ev) = self.exit_marker.clone() {
                self.emit(&format!("ev_{}(w);", ev));
            }
            self.emit("return;");
        }
    }
    fn begin_temps(&mut self) {
        self.temps.push(vec![]);
    }
    fn end_temps(&mut self) {
        if let Some(t) = self.temps.pop() {
            for l in t.iter().rev() {
                self.rel_lock(l);
            }
        }
    }
    fn lock_of_call(&self, method: &str, recv_text: &str) -> Option<String> {
        for (m, sub, l) in &self.cfg.locks {
            if m == method && recv_text.contains(sub.as_str()) {
                return Some(l.clone());
            }
        }
        for (m, l) in &self.cfg.guardcalls {
            if m == method {
                return Some(l.clone());
            }
        }
        None
    }
    fn acq(&mut self, l: &str) {
        self.emit(&format!("acq_{}(w);", l.to_lowercase()));
        self.events += 1;
    }

    fn strip<'e>(e: &'e syn::Expr) -> &'e syn::Expr {
        match e {
            syn::Expr::Paren(p) => Self::strip(&p.expr),
            syn::Expr::Reference(r) => Self::strip(&r.expr),
            syn::Expr::Group(g) => Self::strip(&g.expr),
            _ => e,
        }
    }

    fn resolve_call(&self, name: &str, recv_text: &str, path: Option<&str>) -> Option<(String, bool)> {
        if let Some(p) = path {
            // Type::fn or Self::fn
            let p2 = p.replace("Self::", &format!("{}::", self.self_ty));
            let segs: Vec<&str> = p2.split("::").collect();
            if segs.len() >= 2 {
                let key = format!("{}::{}", segs[segs.len() - 2], segs[segs.len() - 1]);
                if let Some(v) = self.registry.get(&key) {
                    return Some(v.clone());
                }
            }
            if let Some(v) = self.registry.get(segs[segs.len() - 1]) {
                if segs.len() == 1 || !self.registry.keys().any(|k| k.ends_with(&format!("::{}", segs[segs.len() - 1]))) {
                    return Some(v.clone());
                }
            }
            return None;
        }
        for (m, sub, target) in &self.cfg.calls {
            let hit = match sub.strip_prefix('=') { Some(exact) => recv_text == exact, None => recv_text.contains(sub.as_str()) };
            if m == name && hit {
                // `=self` rules apply only inside the type named by the target
                if sub.as_str() == "=self" && !target.starts_with(&format!("{}::", self.self_ty)) {
                    continue;
                }
                return self.registry.get(target).cloned();
            }
        }
        None
    }

    /// a call to a function of the same file that is not registered: skeletonise it on the fly
    fn try_auto(&mut self, name: &str, owner_hint: Option<&str>) -> Option<AV> {
        if !self.local_fns.contains_key(name) {
            // a function that is new to the crate and defined in another file
            let hits: Vec<&'static NewFn> = NEW_FNS.with(|v| v.borrow().iter().filter(|f| f.name == name && f.src.rel != self.src.rel).cloned().collect());
            if hits.len() == 1 {
                let h = hits[0];
                let (saved_src, saved_lf) = (self.src, self.local_fns);
                self.src = h.src;
                self.local_fns = h.local_fns;
                let r = self.try_inline(&h.owner, name, h.retres);
                self.src = saved_src;
                self.local_fns = saved_lf;
                if r.is_none() {
                    self.errors.push(format!("{}: call to the new function `{}` ({}) cannot be expanded (recursive / returns a guard): its effects are unknown", self.src.rel, name, h.src.rel));
                }
                return r;
            }
            return None;
        }
        let cands = self.local_fns.get(name)?.clone();
        let pick = match owner_hint {
            Some(o) => cands.iter().find(|(t, _)| t == o).cloned().or_else(|| if cands.len() == 1 { Some(cands[0].clone()) } else { None }),
            None => if cands.len() == 1 { Some(cands[0].clone()) } else { cands.iter().find(|(t, _)| t.is_empty()).cloned() },
        }?;
        if let Some(av) = self.try_inline(&pick.0, name, pick.1) {
            return Some(av);
        }
        let skname = if pick.0.is_empty() { format!("sk_auto_{}", name) } else { format!("sk_auto_{}_{}", pick.0, name) };
        if !self.auto_requests.iter().any(|(t, n)| *t == pick.0 && n == name) {
            self.auto_requests.push((pick.0.clone(), name.to_string()));
        }
        Some(self.call_skel(&(skname, pick.1)))
    }

    fn call_skel(&mut self, sk: &(String, bool)) -> AV {
        self.events += 1;
        if sk.1 {
            let v = self.fresh("ok");
            self.emit(&format!("let {} = {}(w);", v, sk.0));
            AV::Res(v)
        } else {
            self.emit(&format!("{}(w);", sk.0));
            AV::None
        }
    }

    fn expr(&mut self, e: &syn::Expr) -> AV {
        use syn::Expr as E;
        match e {
            E::Paren(p) => self.expr(&p.expr),
            E::Group(p) => self.expr(&p.expr),
            E::Reference(r) => self.expr(&r.expr),
            E::Unary(u) => {
                self.expr(&u.expr);
                AV::None
            }
            E::Cast(c) => {
                self.expr(&c.expr);
                AV::None
            }
            E::Field(f) => {
                self.expr(&f.base);
                AV::None
            }
            E::Index(i) => {
                self.expr(&i.expr);
                self.expr(&i.index);
                AV::None
            }
            E::Binary(b) => {
                self.expr(&b.left);
                self.expr(&b.right);
                AV::None
            }
            E::Assign(a) => {
                let av = self.expr(&a.right);
                self.expr(&a.left);
                if let syn::Expr::Path(p) = &*a.left {
                    if let Some(id) = p.path.get_ident() {
                        self.vars.insert(id.to_string(), av);
                    }
                }
                AV::None
            }
            E::Tuple(t) => {
                for x in &t.elems {
                    self.expr(x);
                }
                AV::None
            }
            E::Array(t) => {
                for x in &t.elems {
                    self.expr(x);
                }
                AV::None
            }
            E::Repeat(r) => {
                self.expr(&r.expr);
                AV::None
            }
            E::Range(r) => {
                if let Some(a) = &r.start {
                    self.expr(a);
                }
                if let Some(a) = &r.end {
                    self.expr(a);
                }
                AV::None
            }
            E::Struct(s) => {
                for f in &s.fields {
                    self.expr(&f.expr);
                }
                if let Some(r) = &s.rest {
                    self.expr(r);
                }
                AV::None
            }
            E::Lit(_) | E::Macro(_) | E::Continue(_) | E::Infer(_) | E::Const(_) | E::Verbatim(_) => {
                if let E::Macro(m) = e {
                    self.macro_fmt_locks(&m.mac);
                }
                if let E::Continue(_) = e {
                    let d = *self.loop_scope_depth.last().unwrap_or(&0);
                    // release guards of scopes opened inside the loop body
                    let scopes = self.scopes.clone();
                    for sc in scopes[d..].iter().rev() {
                        for (_, b) in sc.iter().rev() {
                            self.release_bound(b);
                        }
                    }
                    self.emit("continue;");
                }
                AV::None
            }
            E::Path(p) => {
                if let Some(id) = p.path.get_ident() {
                    if let Some(av) = self.vars.get(&id.to_string()) {
                        return av.clone();
                    }
                }
                AV::None
            }
            E::Let(l) => self.expr(&l.expr),
            E::Try(t) => {
                let av = self.expr(&t.expr);
                let c = match &av {
                    AV::Res(v) => format!("!{}", v),
                    AV::Dropper(_, v) if !v.is_empty() => format!("!{}", v),
                    _ => "nondet()".to_string(),
                };
                self.emit(&format!("if {} {{", c));
                self.ind += 1;
                self.do_return(&AV::Res("false".into()));
                self.ind -= 1;
                self.emit("}");
                match av {
                    AV::Dropper(_, _) | AV::Guard(_) => av,
                    _ => AV::None,
                }
            }
            E::Return(r) => {
                let av = match &r.expr {
                    Some(x) => self.expr(x),
                    None => AV::None,
                };
                // a literal `return Err(..)` of a strict-exit function (e.g. open) that no tracked condition explains
                if let (Some(x), Some((_, ev))) = (&r.expr, self.cfg.strict_exits.iter().find(|(k, _)| *k == self.top_key).cloned()) {
                    let is_err_lit = matches!(Self::strip(x), syn::Expr::Call(c) if matches!(&*c.func, syn::Expr::Path(p) if p.path.is_ident("Err")));
                    if is_err_lit && !self.cond_explained.last().copied().unwrap_or(false) {
                        self.emit(&format!("ev_{}(w);", ev));
                        self.events += 1;
                    }
                }
                self.do_return(&av);
                AV::None
            }
            E::Break(_) => {
                let d = *self.loop_scope_depth.last().unwrap_or(&0);
                let scopes = self.scopes.clone();
                for sc in scopes[d..].iter().rev() {
                    for (_, b) in sc.iter().rev() {
                        self.release_bound(b);
                    }
                }
                self.emit("break;");
                AV::None
            }
            E::Block(b) => self.block(&b.block),
            E::Unsafe(b) => self.block(&b.block),
            E::Closure(c) => {
                // a closure value used as an argument: its body may run (0 or 1 times is an under-count for loops,
                // but closure bodies in scope carry no events on the unchanged tree; any event here is still seen)
                let mark = self.out.len();
                let ev0 = self.events;
                self.emit("if nondet() {");
                self.ind += 1;
                // the body runs inside the callee (as its callback); the callee's skeleton accounts for the context
                // a closure chained onto an open (`open(p).and_then(|file| ..)`): its parameter is a handle to that file
                if let Some(r) = self.last_role.clone() {
                    for inp in c.inputs.iter() {
                        if let syn::Pat::Ident(pi) = inp {
                            let hr = if r == "Role::TMP" { "Role::TMP_FILE".to_string() } else { r.clone() };
                            self.var_roles.entry(pi.ident.to_string()).or_insert(hr);
                        }
                    }
                }
                let cbv = self.fresh("cbarg");
                self.emit(&format!("let {} = rd(w, F::CbArg);", cbv));
                self.emit("set_cbarg(w, true);");
                self.scopes.push(vec![]);
                self.expr(&c.body);
                let sc = self.scopes.pop().unwrap();
                for (_, b) in sc.iter().rev() {
                    self.release_bound(b);
                }
                self.emit(&format!("set_cbarg(w, {});", cbv));
                self.ind -= 1;
                self.emit("}");
                if self.events == ev0 {
                    self.out.truncate(mark);
                }
                AV::None
            }
            E::If(i) => self.if_expr(i),
            E::Match(m) => self.match_expr(m),
            E::ForLoop(l) => {
                self.begin_temps();
                self.expr(&l.expr);
                self.end_temps();
                self.loop_body(&l.body, None);
                AV::None
            }
            E::While(l) => {
                self.loop_body(&l.body, Some(&l.cond));
                AV::None
            }
            E::Loop(l) => {
                self.loop_body_plain(&l.body);
                AV::None
            }
            E::MethodCall(m) => self.method_call(m),
            E::Call(c) => self.call(c),
            _ => {
                self.errors.push(format!("{}:{}: unsupported expression kind in skeleton", self.src.rel, self.line(e)));
                AV::None
            }
        }
    }

    fn loop_header(&mut self) -> String {
        self.loop_counter += 1;
        // default loop invariant: every iteration leaves the World as it found it
        let g = format!("wl{}", self.loop_counter);
        self.emit(&format!("let ghost {} = *w;", g));
        let inv = self.loop_invs.get(&self.loop_counter).cloned().unwrap_or_else(|| format!("invariant same({}, *w),", g));
        if let Some(fr) = self.inl.last() {
            // a `return` inside an inlined helper's loop leaves the loop by `break` with the done flag set
            return format!("invariant_except_break same({}, *w),\nensures {} || same({}, *w),", g, fr.done, g);
        }
        inv
    }
    fn after_loop(&mut self, rc0: usize) {
        if let Some(fr) = self.inl.last().cloned() {
            if self.ret_count > rc0 && self.loop_scope_depth.len() > fr.loop_base {
                self.emit(&format!("if {} {{ break; }}", fr.done));
            }
        }
    }

    fn loop_body(&mut self, body: &syn::Block, cond: Option<&syn::Expr>) {
        let inv = self.loop_header();
        self.emit("loop");
        for l in inv.lines() {
            let t = l.trim_end().to_string();
            self.emit(&format!("    {}", t.trim_start()));
        }
        self.emit("{");
        self.ind += 1;
        if let Some(c) = cond {
            self.begin_temps();
            self.expr(c);
            self.end_temps();
        }
        self.emit("if nondet() { break; }");
        self.loop_scope_depth.push(self.scopes.len());
        let rc0 = self.ret_count;
        self.block(body);
        self.loop_scope_depth.pop();
        self.ind -= 1;
        self.emit("}");
        self.after_loop(rc0);
    }
    fn loop_body_plain(&mut self, body: &syn::Block) {
        let inv = self.loop_header();
        self.emit("loop");
        for l in inv.lines() {
            self.emit(&format!("    {}", l.trim()));
        }
        self.emit("{");
        self.ind += 1;
        self.loop_scope_depth.push(self.scopes.len());
        let rc0 = self.ret_count;
        self.block(body);
        self.loop_scope_depth.pop();
        self.ind -= 1;
        self.emit("}");
        self.after_loop(rc0);
    }

    fn tracked_cond(&self, t: &str) -> Option<String> {
        let (tn, tcore) = match t.strip_prefix('!') { Some(c) => (true, c.trim()), None => (false, t) };
        for (sub, expr) in &self.cfg.tracked {
            // `*` in a rule stands for any identifier characters (variable names are incidental)
            let (sn, score) = match sub.strip_prefix('!') { Some(c) => (true, c.trim()), None => (false, sub.as_str()) };
            if glob_ident(score, tcore) {
                return Some(if tn == sn { expr.clone() } else { format!("!({})", expr) });
            }
        }
        None
    }
    /// a tracked condition that occurs in a form no rule covers would silently become `nondet()` and make obligations
    /// fail for no semantic reason: report it as an extraction problem (UNDECIDED) instead
    fn tracked_guard(&mut self, text: &str, at: usize, applied: bool) {
        if applied {
            return;
        }
        let mut cores: Vec<String> = self.cfg.tracked.iter().map(|(s, _)| s.trim_start_matches('!').trim().split('*').max_by_key(|x| x.len()).unwrap_or("").to_string()).collect();
        cores.extend(self.cfg.tracked_arms.iter().map(|(s, _, _)| s.trim_start_matches('&').trim().to_string()));
        for c in cores {
            if !c.is_empty() && text.contains(c.as_str()) {
                self.errors.push(format!("{}:{}: the tracked condition `{}` occurs in a form the skeleton rules do not cover (`{}`)", self.src.rel, at, c, text));
                return;
            }
        }
    }

    fn if_expr(&mut self, i: &syn::ExprIf) -> AV {
        // condition (temporaries of the condition are dropped before the branches)
        self.begin_temps();
        let ctext = self.text(&*i.cond);
        let cav = self.expr(&i.cond);
        self.end_temps();
        let mut cond = "nondet()".to_string();
        let mut applied = false;
        if let syn::Expr::Let(l) = &*i.cond {
            let pt = self.text(&*l.pat);
            if let AV::Res(v) = &cav {
                if pt.starts_with("Ok") {
                    cond = v.clone();
                    applied = true;
                } else if pt.starts_with("Err") {
                    cond = format!("!{}", v);
                    applied = true;
                }
            }
            // `if let PAT = <tracked scrutinee>`: the arm rules of `match` apply
            let stext = self.text(&*l.expr);
            if let Some((_, _, c)) = self.cfg.tracked_arms.iter().find(|(s, p, _)| stext.contains(s.as_str()) && pt.starts_with(p.as_str())) {
                cond = c.clone();
                applied = true;
            }
        } else if let Some(t) = self.tracked_cond(&ctext) {
            cond = t;
            applied = true;
        } else if let syn::Expr::Path(p) = Self::strip(&i.cond) {
            // a boolean local that was assigned from a tracked source keeps its nondet value: reuse the variable
            if let Some(id) = p.path.get_ident() {
                if let Some(AV::Res(v)) = self.vars.get(&id.to_string()) {
                    cond = v.clone();
                }
            }
        }
        let at = self.line(&*i.cond);
        self.tracked_guard(&ctext, at, applied);
        let res = self.fresh("ifv");
        self.emit(&format!("let mut {}: bool = nondet();", res));
        self.emit(&format!("if {} {{", cond));
        self.ind += 1;
        self.cond_explained.push(cond != "nondet()");
        let a = self.block(&i.then_branch);
        self.cond_explained.pop();
        if let AV::Res(v) = &a {
            self.emit(&format!("{} = {};", res, v));
        }
        self.ind -= 1;
        if let Some((_, eb)) = &i.else_branch {
            self.emit("} else {");
            self.ind += 1;
            self.cond_explained.push(cond != "nondet()");
            let b = match &**eb {
                syn::Expr::Block(b) => self.block(&b.block),
                other => self.expr(other),
            };
            self.cond_explained.pop();
            if let AV::Res(v) = &b {
                self.emit(&format!("{} = {};", res, v));
            }
            self.ind -= 1;
        }
        self.emit("}");
        for (t, ev) in self.cfg.tracked_after.clone() {
            if t == ctext {
                self.emit(&format!("ev_{}(w);", ev));
                self.events += 1;
            }
        }
        AV::Res(res)
    }

    fn arm_chain(&mut self, arms: &[&syn::Arm], res: &str) {
        let n = arms.len();
        for (k, arm) in arms.iter().enumerate() {
            if n == 1 {
                self.emit("{");
            } else if k == 0 {
                self.emit("if nondet() {");
            } else if k + 1 == n {
                self.emit("} else {");
            } else {
                self.emit("} else if nondet() {");
            }
            self.ind += 1;
            self.scopes.push(vec![]);
            if let Some((_, g)) = &arm.guard {
                self.expr(g);
            }
            self.cond_explained.push(self.arm_explained);
            let av = self.expr(&arm.body);
            self.cond_explained.pop();
            if let AV::Res(v) = &av {
                self.emit(&format!("{} = {};", res, v));
            }
            let sc = self.scopes.pop().unwrap();
            for (_, b) in sc.iter().rev() {
                self.release_bound(b);
            }
            self.ind -= 1;
        }
        if n > 0 {
            self.emit("}");
        }
    }

    fn match_expr(&mut self, m: &syn::ExprMatch) -> AV {
        self.begin_temps();
        let sav = self.expr(&m.expr);
        let res = self.fresh("mv");
        self.emit(&format!("let mut {}: bool = nondet();", res));
        let pats: Vec<String> = m.arms.iter().map(|a| self.text(&a.pat)).collect();
        let stext = self.text(&*m.expr);
        let ta: Vec<(String, String)> = self.cfg.tracked_arms.iter().filter(|(s, _, _)| stext.contains(s.as_str())).map(|(_, p, c)| (p.clone(), c.clone())).collect();
        if !ta.is_empty() {
            // arms selected by tracked World conditions (declared exclusive and exhaustive in effects.cfg)
            let mut first = true;
            for (arm, pt) in m.arms.iter().zip(pats.iter()) {
                let cond = ta.iter().find(|(p, _)| pt.starts_with(p.as_str())).map(|(_, c)| c.clone()).unwrap_or_else(|| "nondet()".into());
                self.emit(&format!("{}if {} {{", if first { "" } else { "} else " }, cond));
                first = false;
                self.ind += 1;
                self.scopes.push(vec![]);
                self.cond_explained.push(cond != "nondet()");
                let av = self.expr(&arm.body);
                self.cond_explained.pop();
                if let AV::Res(v) = &av {
                    self.emit(&format!("{} = {};", res, v));
                }
                let sc = self.scopes.pop().unwrap();
                for (_, b) in sc.iter().rev() {
                    self.release_bound(b);
                }
                self.ind -= 1;
            }
            self.emit("}");
            self.end_temps();
            return AV::Res(res);
        }
        let mat = self.line(&*m.expr);
        self.tracked_guard(&stext, mat, false);
        let all_tagged = pats.iter().all(|p| p.starts_with("Ok") || p.starts_with("Err"));
        if let (AV::Res(v), true) = (&sav, all_tagged) {
            let oks: Vec<&syn::Arm> = m.arms.iter().zip(pats.iter()).filter(|(_, p)| p.starts_with("Ok")).map(|(a, _)| a).collect();
            let errs: Vec<&syn::Arm> = m.arms.iter().zip(pats.iter()).filter(|(_, p)| p.starts_with("Err")).map(|(a, _)| a).collect();
            self.emit(&format!("if {} {{", v));
            self.ind += 1;
            self.arm_explained = oks.len() <= 1;
            self.arm_chain(&oks, &res);
            self.ind -= 1;
            self.emit("} else {");
            self.ind += 1;
            self.arm_explained = errs.len() <= 1;
            self.arm_chain(&errs, &res);
            self.arm_explained = false;
            self.ind -= 1;
            self.emit("}");
        } else {
            let all: Vec<&syn::Arm> = m.arms.iter().collect();
            self.arm_chain(&all, &res);
        }
        self.end_temps();
        AV::Res(res)
    }

    fn method_call(&mut self, m: &syn::ExprMethodCall) -> AV {
        let name = m.method.to_string();
        let recv_text = self.text(&*m.receiver);
        let call_text = self.text(m);
        let at = self.line(m);
        // guard temporaries / lock acquisition
        if let Some(l) = self.lock_of_call(&name, &recv_text) {
            self.expr(&m.receiver);
            self.acq(&l);
            if let Some(t) = self.temps.last_mut() {
                t.push(l.clone());
            }
            return AV::Guard(l);
        }
        let rav = self.expr(&m.receiver);
        for a in &m.args {
            // closures passed to combinators are handled by expr(Closure)
            self.expr(a);
        }
        // markers
        for (mm, sub, ev, req) in self.cfg.markers.clone() {
            if mm != name {
                continue;
            }
            let (strict, reqt) = match req.strip_prefix('!') { Some(r) if req.starts_with("!!") => (true, r.to_string()), _ => (false, req.clone()) };
            let has = reqt.is_empty() || call_text.replace(' ', "").contains(&reqt.replace(' ', ""));
            // the predicate text is the semantic content of the marker: it fires on any receiver name
            if sub == "*" || recv_text.contains(sub.as_str()) || (!reqt.is_empty() && has) {
                if !has {
                    if strict {
                        // only a problem if the function contains no statement with the expected predicate at all
                        self.soft_errors.push((ev.clone(), format!("{}:{}: `{}` has the marker shape `{}` but not the expected predicate `{}`", self.src.rel, at, call_text, ev, reqt)));
                    }
                    continue;
                }
                self.emit(&format!("ev_{}(w);", ev));
                self.events += 1;
                return AV::None;
            }
        }
        // callbacks by local name: x.call(..) not used; closures are called as functions
        for (pm, ev, fallible, from) in self.cfg.primmethods.clone() {
            if pm == name {
                if name == "open" && !recv_text.contains("OpenOptions") {
                    continue;
                }
                if name == "send" && !recv_text.contains("sender") {
                    continue;
                }
                if name == "flush" || name == "write_all" || name == "sync_data" || name == "sync_all" || name == "into_inner" || name == "try_lock" || name == "reopen" || name == "read_at" {
                    // receiver gives the role
                }
                let mut evname = ev.clone();
                let role_src = match from.as_str() {
                    "recv" => recv_text.clone(),
                    "arg0" => m.args.first().map(|a| self.text(a)).unwrap_or_default(),
                    _ => String::new(),
                };
                if name == "open" {
                    let r = recv_text.replace(' ', "");
                    evname = if r.contains(".truncate(true)") { "open_create_trunc".into() } else if r.contains(".append(true)") { "open_append_create".into() } else if r.contains(".read(true)") && !r.contains(".write(true)") { "open_read".into() } else { "open_other".into() };
                }
                let role = if from == "none" { String::new() } else { format!(", {}", self.role_of(&role_src, at)) };
                self.events += 1;
                if fallible {
                    let v = self.fresh("ok");
                    self.emit(&format!("let {} = ev_{}(w{});", v, evname, role));
                    return AV::Res(v);
                } else {
                    self.emit(&format!("ev_{}(w{});", evname, role));
                    return AV::None;
                }
            }
        }
        // Result/Option combinators keep the tracked result
        match name.as_str() {
            "map_err" | "map" | "ok_or" | "ok_or_else" | "inspect_err" | "context" | "or_else" | "and_then" => return rav,
            _ => {}
        }
        // droppable consumers: by-value method on a bound droppable
        if let syn::Expr::Path(p) = Self::strip(&m.receiver) {
            if let Some(id) = p.path.get_ident() {
                let idn = id.to_string();
                let mut found = None;
                for sc in self.scopes.iter() {
                    for (n, b) in sc.iter() {
                        if *n == idn {
                            if let Bound::Dropper(_) = b {
                                found = Some(idn.clone());
                            }
                        }
                    }
                }
                if found.is_some() {
                    if let Some(sk) = self.resolve_call(&name, &recv_text, None) {
                        // moved into the callee: unbind (the callee's skeleton runs the drop at its exits)
                        for sc in self.scopes.iter_mut() {
                            sc.retain(|(n, _)| *n != idn);
                        }
                        return self.call_skel(&sk);
                    }
                }
            }
        }
        if let Some(sk) = self.resolve_call(&name, &recv_text, None) {
            let av = self.call_skel(&sk);
            // producer of a droppable?
            for (prod, dropfn) in self.cfg.droppables.clone() {
                if prod == name {
                    if let Some(d) = self.registry.get(&dropfn) {
                        let okv = if let AV::Res(v) = &av { v.clone() } else { String::new() };
                        return AV::Dropper(d.0.clone(), okv);
                    }
                }
            }
            return av;
        }
        if (recv_text == "self" || recv_text == "&self") && !self.cfg.pure.iter().any(|p| *p == name) {
            let st = self.self_ty.clone();
            if let Some(av) = self.try_auto(&name, Some(&st)) {
                return av;
            }
        }
        if !self.cfg.pure.iter().any(|p| *p == name) {
            // a method that is new to the crate (any receiver, defined in another file): expand it
            let is_new = NEW_FNS.with(|v| v.borrow().iter().any(|f| f.name == name));
            if is_new {
                if let Some(av) = self.try_auto(&name, None) {
                    return av;
                }
            }
            self.unknown_calls.push(format!("{}:{}: .{}()", self.src.rel, at, name));
        }
        AV::None
    }

    fn call(&mut self, c: &syn::ExprCall) -> AV {
        let at = self.line(c);
        let (pstr, lastn) = match &*c.func {
            syn::Expr::Path(p) => (path_str(&p.path), last_seg(&p.path)),
            other => (self.text(other), String::new()),
        };
        // drop(guard)
        if pstr == "drop" && c.args.len() == 1 {
            if let syn::Expr::Path(p) = Self::strip(&c.args[0]) {
                if let Some(id) = p.path.get_ident() {
                    let idn = id.to_string();
                    let mut hit: Option<Bound> = None;
                    for sc in self.scopes.iter_mut() {
                        if let Some(pos) = sc.iter().position(|(n, _)| *n == idn) {
                            hit = Some(sc.remove(pos).1);
                        }
                    }
                    if let Some(b) = hit {
                        self.release_bound(&b);
                    }
                }
            }
            return AV::None;
        }
        // a lock guard passed by value to a function (downgrade, map, forget, a helper that keeps it): its lifetime leaves
        // the scope rules of the skeleton
        for a in &c.args {
            if let syn::Expr::Path(p) = Self::strip(a) {
                if let Some(id) = p.path.get_ident() {
                    let idn = id.to_string();
                    let is_guard = self.scopes.iter().any(|sc| sc.iter().any(|(n, b)| *n == idn && matches!(b, Bound::Lock(_))));
                    let by_ref = matches!(a, syn::Expr::Reference(_));
                    if is_guard && !by_ref {
                        self.errors.push(format!("{}:{}: the lock guard `{}` is moved into `{}`: its lifetime cannot be followed by the skeleton rules", self.src.rel, at, idn, pstr));
                    }
                }
            }
        }
        let mut arg_avs = vec![];
        if lastn == "spawn" {
            // a detached thread: its events are not part of this call's trace (skeletonised separately if needed)
            return AV::None;
        }
        for a in &c.args {
            arg_avs.push(self.expr(a));
        }
        match pstr.as_str() {
            "Ok" => return AV::Res("true".into()),
            "Err" => return AV::Res("false".into()),
            "Some" | "Box::new" | "Arc::new" | "Mutex::new" | "RwLock::new" | "BufWriter::new" | "BufReader::new" | "PathBuf::from" | "String::from" => {
                return AV::None;
            }
            _ => {}
        }
        // callbacks: local closure variables and dyn Fn parameters
        for (nm, ev) in self.cfg.callbacks.clone() {
            if pstr == nm {
                if let Some(cl) = self.closures.get(&nm).cloned() {
                    let v = self.fresh("ok");
                    self.emit(&format!("let {} = {}(w);", v, cl));
                    self.events += 1;
                    return AV::Res(v);
                }
                let v = self.fresh("ok");
                self.emit(&format!("let {} = {}(w);", v, ev));
                self.events += 1;
                return AV::Res(v);
            }
        }
        for (suffix, ev, fallible, roleargs) in self.cfg.primpaths.clone() {
            if pstr == suffix || pstr.ends_with(&format!("::{}", suffix)) {
                let mut roles = String::new();
                for i in roleargs {
                    let t = c.args.iter().nth(i).map(|a| self.text(a)).unwrap_or_default();
                    let r = self.role_of(&t, at);
                    roles.push_str(&format!(", {}", r));
                }
                self.events += 1;
                if fallible {
                    let v = self.fresh("ok");
                    self.emit(&format!("let {} = ev_{}(w{});", v, ev, roles));
                    return AV::Res(v);
                } else {
                    self.emit(&format!("ev_{}(w{});", ev, roles));
                    return AV::None;
                }
            }
        }
        if let Some(sk) = self.resolve_call(&lastn, "", Some(&pstr)) {
            let av = self.call_skel(&sk);
            for (prod, dropfn) in self.cfg.droppables.clone() {
                if prod == lastn {
                    if let Some(d) = self.registry.get(&dropfn) {
                        let okv = if let AV::Res(v) = &av { v.clone() } else { String::new() };
                        return AV::Dropper(d.0.clone(), okv);
                    }
                }
            }
            return av;
        }
        if pstr.ends_with("OpenOptions::new") {
            return AV::None;
        }
        if !self.cfg.pure.iter().any(|p| *p == lastn || *p == pstr) {
            let segs: Vec<&str> = pstr.split("::").collect();
            let st = self.self_ty.clone();
            let is_new = NEW_FNS.with(|v| v.borrow().iter().any(|f| f.name == lastn));
            let auto = if segs.len() == 1 || is_new { self.try_auto(&lastn, None) } else if segs.len() == 2 && (segs[0] == "Self" || segs[0] == st) { self.try_auto(&lastn, Some(&st)) } else { None };
            if let Some(av) = auto {
                return av;
            }
        }
        if pstr.starts_with("std::fs::") || pstr.starts_with("fs::") || pstr.starts_with("File::") || pstr.starts_with("std::fs::File::") {
            // a filesystem call outside the alphabet: unexplained effect (frame obligation, C06)
            self.emit("ev_unexplained_fs(w);");
            self.events += 1;
            return AV::None;
        }
        if !self.cfg.pure.iter().any(|p| *p == lastn || *p == pstr) {
            self.unknown_calls.push(format!("{}:{}: {}()", self.src.rel, at, pstr));
        }
        AV::None
    }

    fn block(&mut self, b: &syn::Block) -> AV {
        self.block_with_tail(b, None)
    }

    /// `tail`: (result variable, returns Result) of an inlined helper whose body this block is
    fn block_with_tail(&mut self, b: &syn::Block, tail: Option<(String, bool)>) -> AV {
        self.scopes.push(vec![]);
        let mut last = AV::None;
        let n = b.stmts.len();
        let mut wrappers = 0usize;
        let mut rc0 = self.ret_count;
        let mark = self.out.len();
        let mark_ind = self.ind;
        for (k, s) in b.stmts.iter().enumerate() {
            last = self.stmt(s, k + 1 == n);
            if let Some(fr) = self.inl.last().cloned() {
                if self.ret_count > rc0 && k + 1 < n {
                    // the statement may have returned from the inlined helper: the rest runs only if it did not
                    self.emit(&format!("if !{} {{", fr.done));
                    self.ind += 1;
                    wrappers += 1;
                    rc0 = self.ret_count;
                }
            }
        }
        if let Some((ret, retres)) = &tail {
            if matches!(last, AV::Guard(_) | AV::Dropper(_, _)) {
                self.inline_failed = true;
            }
            if *retres {
                let v = match &last { AV::Res(v) => v.clone(), _ => "nondet()".to_string() };
                self.emit(&format!("{} = {};", ret, v));
            }
            last = AV::None;
        } else if wrappers > 0 && !matches!(last, AV::None) {
            match &last {
                AV::Res(v) => {
                    // the block's value is computed behind an early return of the inlined helper: carry it in a variable
                    // declared before the block (its value is irrelevant once the helper has returned)
                    let bv = self.fresh("vx_bv");
                    self.out.insert(mark, format!("{}let mut {}: bool = true;", "    ".repeat(mark_ind), bv));
                    self.emit(&format!("{} = {};", bv, v));
                    last = AV::Res(bv);
                }
                _ => { self.inline_failed = true; }
            }
        }
        let sc = self.scopes.pop().unwrap();
        for (_, b) in sc.iter().rev() {
            self.release_bound(b);
        }
        for _ in 0..wrappers {
            self.ind -= 1;
            self.emit("}");
        }
        last
    }

    /// expand a helper of the same file that is not under contract at its call site (exact, unlike a contract-less call)
    fn try_inline(&mut self, owner: &str, name: &str, retres: bool) -> Option<AV> {
        let key = if owner.is_empty() { name.to_string() } else { format!("{}::{}", owner, name) };
        if self.inline_stack.contains(&key) || self.inline_stack.len() >= 4 {
            return None;
        }
        let sel: Vec<String> = if owner.is_empty() { vec!["fn".into(), name.to_string()] } else { vec!["impl".into(), owner.to_string(), "fn".into(), name.to_string()] };
        let src = self.src;
        let found = crate::find_item(&src.file, &sel).ok()?;
        let block: &syn::Block = match &found {
            crate::Found::ImplFn(_, f) => &f.block,
            crate::Found::Item(syn::Item::Fn(f)) => &*f.block,
            _ => return None,
        };
        let mark = self.out.len();
        let saved = (self.vars.clone(), self.closures.clone(), self.self_ty.clone(), self.ret_result, self.fname.clone(), self.drop_self.clone(),
                     self.exit_marker.clone(), std::mem::take(&mut self.loop_invs), self.events, self.errors.len(), self.unknown_calls.len(),
                     self.ret_count, self.inline_failed, self.pending_closures.len(), self.auto_requests.len(), self.inlined.len());
        let id = self.fresh("");
        let done = format!("vx_done{}", id);
        let ret = format!("vx_ret{}", id);
        self.emit(&format!("// ---- inlined: body of {} ({}:{}), a helper that is not under contract ----", key, src.rel, self.line(block)));
        self.emit(&format!("let mut {}: bool = false;", done));
        if retres {
            self.emit(&format!("let mut {}: bool = true;", ret));
        }
        self.inl.push(InlFrame { done: done.clone(), ret: ret.clone(), scope_base: self.scopes.len(), temps_base: self.temps.len(), loop_base: self.loop_scope_depth.len(), ret_result: retres });
        self.inline_stack.push(key.clone());
        self.vars = BTreeMap::new();
        self.closures = BTreeMap::new();
        self.self_ty = owner.to_string();
        self.ret_result = retres;
        self.fname = format!("{}_inl{}_{}", saved.4, id, name);
        self.drop_self = None;
        self.exit_marker = None;
        self.inline_failed = false;
        self.block_with_tail(block, Some((ret.clone(), retres)));
        self.emit(&format!("// ---- end of inlined {} ----", key));
        self.inl.pop();
        self.inline_stack.pop();
        let failed = self.inline_failed;
        self.vars = saved.0; self.closures = saved.1; self.self_ty = saved.2; self.ret_result = saved.3; self.fname = saved.4;
        self.drop_self = saved.5; self.exit_marker = saved.6; self.loop_invs = saved.7;
        self.inline_failed = saved.12;
        if failed {
            self.out.truncate(mark);
            self.events = saved.8; self.errors.truncate(saved.9); self.unknown_calls.truncate(saved.10); self.ret_count = saved.11;
            self.pending_closures.truncate(saved.13); self.auto_requests.truncate(saved.14); self.inlined.truncate(saved.15);
            return None;
        }
        // returns of the helper are not returns of the caller
        self.ret_count = saved.11;
        if !self.inlined.contains(&key) {
            self.inlined.push(key);
        }
        Some(if retres { AV::Res(ret) } else { AV::None })
    }

    fn bind_pat(&mut self, pat: &syn::Pat, av: AV) {
        let id = match pat {
            syn::Pat::Ident(i) => Some(i.ident.to_string()),
            syn::Pat::Type(t) => match &*t.pat {
                syn::Pat::Ident(i) => Some(i.ident.to_string()),
                _ => None,
            },
            _ => None,
        };
        if let Some(id) = id {
            match av {
                AV::Guard(l) => {
                    // the temporary becomes a named guard: remove from statement temporaries
                    if let Some(t) = self.temps.last_mut() {
                        if let Some(pos) = t.iter().rposition(|x| *x == l) {
                            t.remove(pos);
                        }
                    }
                    self.scopes.last_mut().unwrap().push((id, Bound::Lock(l)));
                }
                AV::Dropper(f, _) => {
                    self.scopes.last_mut().unwrap().push((id, Bound::Dropper(f)));
                }
                other => {
                    self.vars.insert(id, other);
                }
            }
        } else if let syn::Pat::Tuple(t) = pat {
            // (a, b) = { block } : forget tracked values; bool-looking names become fresh nondet
            for p in &t.elems {
                if let syn::Pat::Ident(i) = p {
                    let v = self.fresh("nd");
                    self.emit(&format!("let {} = nondet();", v));
                    self.vars.insert(i.ident.to_string(), AV::Res(v));
                }
            }
        }
    }

    fn stmt(&mut self, s: &syn::Stmt, is_last: bool) -> AV {
        match s {
            syn::Stmt::Local(l) => {
                if let Some(init) = &l.init {
                    // closure bound to a local: separate skeleton function
                    if let syn::Expr::Closure(c) = Self::strip(&init.expr) {
                        if let syn::Pat::Ident(pi) = &l.pat {
                            let cname = format!("{}_closure_{}", self.fname, pi.ident);
                            let text = self.closure_fn(&cname, c);
                            self.pending_closures.push((cname.clone(), text));
                            self.closures.insert(pi.ident.to_string(), cname);
                            return AV::None;
                        }
                    }
                    self.begin_temps();
                    self.last_role = None;
                    let av = self.expr(&init.expr);
                    if let (syn::Pat::Ident(pi), Some(r)) = (&l.pat, self.last_role.clone()) {
                        // TMP path -> TMP_FILE handle; other roles name the file itself
                        let hr = if r == "Role::TMP" { "Role::TMP_FILE".to_string() } else { r };
                        self.var_roles.insert(pi.ident.to_string(), hr);
                    }
                    // a guard bound by `let` lives to the end of the scope; other temporaries die here
                    let bound_guard = matches!(av, AV::Guard(_) | AV::Dropper(_, _));
                    if bound_guard {
                        self.bind_pat(&l.pat, av.clone());
                    }
                    self.end_temps();
                    if let Some((_, eb)) = &init.diverge {
                        self.emit("if nondet() {");
                        self.ind += 1;
                        self.expr(eb);
                        self.ind -= 1;
                        self.emit("}");
                    }
                    if !bound_guard {
                        self.bind_pat(&l.pat, av);
                    }
                }
                AV::None
            }
            syn::Stmt::Expr(e, semi) => {
                self.begin_temps();
                let av = self.expr(e);
                self.end_temps();
                if semi.is_none() && is_last {
                    av
                } else {
                    AV::None
                }
            }
            syn::Stmt::Macro(m) => {
                self.macro_fmt_locks(&m.mac);
                AV::None
            }
            syn::Stmt::Item(_) => AV::None,
        }
    }

    /// A macro (tracing / format / panic family) that formats `self` (or `*self`, `&self`) of a type whose Debug/Display
    /// impl takes a lock acquires and releases that lock on the spot.
    fn macro_fmt_locks(&mut self, mac: &syn::Macro) {
        let lock = match self.cfg.fmtlocks.iter().find(|(t, _)| *t == self.self_ty) { Some((_, l)) => l.clone(), None => return };
        fn walk(ts: proc_macro2::TokenStream, hit: &mut bool) {
            let toks: Vec<proc_macro2::TokenTree> = ts.into_iter().collect();
            for (i, t) in toks.iter().enumerate() {
                match t {
                    proc_macro2::TokenTree::Group(g) => walk(g.stream(), hit),
                    proc_macro2::TokenTree::Ident(id) if id == "self" => {
                        // `self` used as a whole value: not followed by `.field` / `::`
                        let next_is_access = matches!(toks.get(i + 1), Some(proc_macro2::TokenTree::Punct(p)) if p.as_char() == '.' || p.as_char() == ':');
                        if !next_is_access { *hit = true; }
                    }
                    proc_macro2::TokenTree::Literal(l) => {
                        let t = l.to_string();
                        if t.contains("{self") { *hit = true; }
                    }
                    _ => {}
                }
            }
        }
        let mut hit = false;
        walk(mac.tokens.clone(), &mut hit);
        if hit {
            self.emit(&format!("// formatting `self` ({}) runs its Debug/Display impl, which takes {}", self.self_ty, lock));
            self.acq(&lock);
            self.rel_lock(&lock);
        }
    }

    fn closure_fn(&mut self, name: &str, c: &syn::ExprClosure) -> String {
        // translate the closure body as its own skeleton function (contract from the callback table in world.rs)
        let mut sub = Sk {
            src: self.src, cfg: self.cfg, registry: self.registry, self_ty: self.self_ty.clone(), out: vec![], ind: 1,
            scopes: vec![], temps: vec![], loop_scope_depth: vec![], n: 0, ret_result: true, vars: BTreeMap::new(),
            closures: BTreeMap::new(), pending_closures: vec![], errors: vec![], events: 0, loop_invs: BTreeMap::new(),
            loop_counter: 0, fname: name.to_string(), drop_self: None, unknown_calls: vec![], exit_marker: None, local_fns: self.local_fns, auto_requests: vec![], inl: vec![], inline_stack: vec![], inline_failed: false, ret_count: 0, inlined: vec![], cond_explained: vec![], arm_explained: false, last_role: None, var_roles: BTreeMap::new(), soft_errors: vec![], top_key: String::new(),
        };
        sub.scopes.push(vec![]);
        let av = sub.expr(&c.body);
        let v = match av { AV::Res(v) => v, _ => "nondet()".into() };
        sub.emit(&v);
        self.errors.extend(sub.errors.clone());
        self.soft_errors.extend(sub.soft_errors.clone());
        self.unknown_calls.extend(sub.unknown_calls.clone());
        self.auto_requests.extend(sub.auto_requests.clone());
        self.inlined.extend(sub.inlined.clone());
        self.events += sub.events;
        sub.out.join("\n")
    }
}

pub struct SkelOut {
    pub inlined: Vec<String>,
    pub auto_requests: Vec<(String, String)>,
    pub text: String,
    pub closures: Vec<(String, String)>,
    pub events: usize,
    pub unknown_calls: Vec<String>,
}

#[allow(clippy::too_many_arguments)]
pub fn skeleton_of(
    src: &Src, cfg: &Cfg, registry: &BTreeMap<String, (String, bool)>, self_ty: &str, fname: &str, sig: &syn::Signature,
    block: &syn::Block, loop_invs: BTreeMap<usize, String>, drop_self: Option<String>, exit_marker: Option<String>,
    local_fns: &BTreeMap<String, Vec<(String, bool)>>,
) -> Result<SkelOut, String> {
    let ret_result = match &sig.output {
        syn::ReturnType::Type(_, t) => norm(src.slice(src.range(&**t))).starts_with("Result"),
        _ => false,
    };
    let mut sk = Sk {
        src, cfg, registry, self_ty: self_ty.to_string(), out: vec![], ind: 1, scopes: vec![], temps: vec![], loop_scope_depth: vec![], n: 0,
        ret_result, vars: BTreeMap::new(), closures: BTreeMap::new(), pending_closures: vec![], errors: vec![], events: 0, loop_invs,
        loop_counter: 0, fname: fname.to_string(), drop_self: drop_self.clone(), unknown_calls: vec![], exit_marker: exit_marker.clone(), local_fns, auto_requests: vec![], inl: vec![], inline_stack: vec![], inline_failed: false, ret_count: 0, inlined: vec![], cond_explained: vec![], arm_explained: false, last_role: None, var_roles: BTreeMap::new(), soft_errors: vec![], top_key: String::new(),
    };
    sk.top_key = if self_ty.is_empty() { sig.ident.to_string() } else { format!("{}::{}", self_ty, sig.ident) };
    // dyn Fn parameters that are callbacks are resolved by name through cfg.callbacks
    let av = sk.block(block);
    if let Some(ds) = &drop_self {
        sk.emit(&format!("{}(w);", ds));
    }
    if !ret_result {
        if let Some(ev) = &exit_marker {
            sk.emit(&format!("ev_{}(w);", ev));
        }
    }
    if ret_result {
        let v = match av { AV::Res(v) => v, _ => "nondet()".into() };
        if let Some(ev) = &exit_marker {
            sk.emit(&format!("let rv_tail = {};", v));
            sk.emit(&format!("if rv_tail {{ ev_{}(w); }}", ev));
            sk.emit("rv_tail");
        } else {
            sk.emit(&v);
        }
    }
    for (ev, msg) in sk.soft_errors.clone() {
        let needle = format!("ev_{}(w);", ev);
        if !sk.out.iter().any(|l| l.contains(&needle)) {
            sk.errors.push(msg);
        }
    }
    if !sk.errors.is_empty() {
        return Err(sk.errors.join("; "));
    }
    Ok(SkelOut { inlined: sk.inlined, auto_requests: sk.auto_requests, text: sk.out.join("\n"), closures: sk.pending_closures, events: sk.events, unknown_calls: sk.unknown_calls })
}

pub fn returns_result(src: &Src, sig: &syn::Signature) -> bool {
    match &sig.output {
        syn::ReturnType::Type(_, t) => norm(src.slice(src.range(&**t))).starts_with("Result"),
        _ => false,
    }
}

pub fn do_skel(_args: &BTreeMap<String, String>) -> Result<(), String> {
    Err("use `vx extract` with @@skel directives".into())
}
pub fn do_calls(_args: &BTreeMap<String, String>) -> Result<(), String> {
    Err("calls: not implemented".into())
}
