//! vx — mechanical extractor for contract-based verification of broxus/cassadilia.
//!
//! `vx extract --repo <dir> --spec <unit.vspec> --contracts <dir> --out <file.rs> --map <file.json>`
//!
//! Reads the *current* source files under --repo, cuts out the items named in the unit spec by
//! source span (byte-for-byte), applies the closed list of declared rewrites (R1..R11, see
//! DESIGN.md §3.2; every application is counted), weaves in the contract text from the spec and
//! writes one Verus file plus a line map (generated line -> origin, function, clause label).
//!
//! `vx skel ...` (see skel.rs) derives effect skeletons.
//!
//! Exit codes: 0 ok; 3 = extraction problem (lost anchor, missing item, unsupported construct):
//! the caller reports UNDECIDED, never a violation.

mod skel;
mod spec;

use proc_macro2::LineColumn;
use serde_json::json;
use spec::{Dir, Sub, Take};
use std::collections::BTreeMap;
use syn::spanned::Spanned;
use syn::visit::Visit;

pub struct Src {
    pub rel: String,
    pub text: String,
    pub line_starts: Vec<usize>,
    pub file: syn::File,
}

impl Src {
    pub fn load(repo: &str, rel: &str) -> Result<Src, String> {
        let p = format!("{}/{}", repo, rel);
        let text = std::fs::read_to_string(&p).map_err(|e| format!("cannot read {p}: {e}"))?;
        let file = syn::parse_file(&text).map_err(|e| format!("cannot parse {p}: {e}"))?;
        let mut line_starts = vec![0usize];
        for (i, b) in text.bytes().enumerate() {
            if b == b'\n' {
                line_starts.push(i + 1);
            }
        }
        Ok(Src { rel: rel.to_string(), text, line_starts, file })
    }
    pub fn off(&self, lc: LineColumn) -> usize {
        let ls = self.line_starts[lc.line - 1];
        let line = &self.text[ls..];
        let mut o = ls;
        for (n, (i, _)) in line.char_indices().enumerate() {
            if n == lc.column {
                o = ls + i;
                return o;
            }
        }
        // column at end of text
        let _ = o;
        self.text.len()
    }
    pub fn range<S: Spanned>(&self, s: &S) -> (usize, usize) {
        let sp = s.span();
        (self.off(sp.start()), self.off(sp.end()))
    }
    pub fn span_range(&self, sp: proc_macro2::Span) -> (usize, usize) {
        (self.off(sp.start()), self.off(sp.end()))
    }
    pub fn line_of(&self, off: usize) -> usize {
        match self.line_starts.binary_search(&off) {
            Ok(i) => i + 1,
            Err(i) => i,
        }
    }
    pub fn slice(&self, r: (usize, usize)) -> &str {
        &self.text[r.0..r.1]
    }
}

#[derive(Debug, Clone)]
pub struct Edit {
    pub start: usize,
    pub end: usize,
    pub text: String,
    pub rule: &'static str,
    /// label attached to the inserted lines (for the line map)
    pub label: Option<String>,
    /// ordering among edits at the same offset (lower first)
    pub prio: i32,
}

pub const MODULE_NAMES: &[&str] = &[
    "cas", "cas_manager", "index", "io", "orphan", "paths", "serialization", "settings",
    "transaction", "types", "wal", "manager", "persistence", "state", "replay", "storage",
];

const DROP_ATTRS: &[&str] = &["error", "source", "from", "must_use", "inline", "allow", "doc", "serde"];
const DROP_DERIVES: &[&str] = &["Error", "Serialize", "Deserialize"];

pub fn norm(s: &str) -> String {
    s.split_whitespace().collect::<Vec<_>>().join(" ")
}

fn is_tracing_macro(m: &syn::Macro) -> bool {
    m.path.segments.first().map(|s| s.ident == "tracing").unwrap_or(false)
}

/// Field value expressions of a tracing macro that may panic when evaluated: split the argument list at top-level commas,
/// take the right-hand side of `name = expr` (sigils `%`/`?` stripped), keep those that contain arithmetic, indexing or
/// unwrap/expect.
fn tracing_field_exprs(mac: &syn::Macro) -> Vec<String> {
    let mut parts: Vec<Vec<proc_macro2::TokenTree>> = vec![vec![]];
    for t in mac.tokens.clone() {
        match &t {
            proc_macro2::TokenTree::Punct(p) if p.as_char() == ',' => parts.push(vec![]),
            _ => parts.last_mut().unwrap().push(t),
        }
    }
    let mut out = Vec::new();
    for part in parts {
        // find a top-level `=` that is not part of `==`, `<=`, `>=`, `!=`
        let mut eq = None;
        for (i, t) in part.iter().enumerate() {
            if let proc_macro2::TokenTree::Punct(p) = t {
                if p.as_char() == '=' {
                    let prev_joint = i > 0 && matches!(&part[i - 1], proc_macro2::TokenTree::Punct(q) if q.spacing() == proc_macro2::Spacing::Joint);
                    if p.spacing() == proc_macro2::Spacing::Alone && !prev_joint { eq = Some(i); break; }
                }
            }
        }
        let Some(i) = eq else { continue };
        let mut rhs: Vec<proc_macro2::TokenTree> = part[i + 1..].to_vec();
        while matches!(rhs.first(), Some(proc_macro2::TokenTree::Punct(p)) if p.as_char() == '%' || p.as_char() == '?') { rhs.remove(0); }
        if rhs.is_empty() { continue; }
        let risky = rhs.iter().enumerate().any(|(k, t)| match t {
            proc_macro2::TokenTree::Punct(p) => matches!(p.as_char(), '+' | '*' | '/') || (p.as_char() == '-' && k > 0 && !matches!(&rhs[k - 1], proc_macro2::TokenTree::Punct(_))) || (p.as_char() == '%' && k > 0),
            proc_macro2::TokenTree::Group(g) => g.delimiter() == proc_macro2::Delimiter::Bracket,
            proc_macro2::TokenTree::Ident(id) => id == "unwrap" || id == "expect",
            _ => false,
        });
        if risky {
            let ts: proc_macro2::TokenStream = rhs.into_iter().collect();
            out.push(ts.to_string());
        }
    }
    out
}

/// Collects the automatic rewrites for one item.
struct Auto<'a> {
    src: &'a Src,
    edits: Vec<Edit>,
    errors: Vec<String>,
    keep_derives_off: Vec<String>,
    method_rewrites: Vec<(String, String, bool)>,
    path_rewrites: Vec<(String, String)>,
    expr_rewrites: Vec<(String, String)>,
}

impl<'a> Auto<'a> {
    fn push(&mut self, r: (usize, usize), text: &str, rule: &'static str) {
        self.edits.push(Edit { start: r.0, end: r.1, text: text.to_string(), rule, label: None, prio: 0 });
    }
}

fn flatten_and<'e>(e: &'e syn::Expr, ops: &mut Vec<&'e syn::Expr>, toks: &mut Vec<proc_macro2::Span>) {
    if let syn::Expr::Binary(b) = e {
        if let syn::BinOp::And(t) = &b.op {
            flatten_and(&b.left, ops, toks);
            toks.push(t.span());
            ops.push(&b.right);
            return;
        }
    }
    ops.push(e);
}

impl<'a, 'ast> Visit<'ast> for Auto<'a> {
    fn visit_attribute(&mut self, a: &'ast syn::Attribute) {
        let name = a.path().segments.last().map(|s| s.ident.to_string()).unwrap_or_default();
        if DROP_ATTRS.contains(&name.as_str()) {
            let r = self.src.range(a);
            self.push(r, "", "R1-attr");
        } else if name == "derive" {
            // rewrite the derive list without the dropped names
            let mut kept: Vec<String> = Vec::new();
            let mut dropped = false;
            let _ = a.parse_nested_meta(|m| {
                let n = m.path.segments.last().map(|s| s.ident.to_string()).unwrap_or_default();
                if DROP_DERIVES.contains(&n.as_str()) || self.keep_derives_off.contains(&n) {
                    dropped = true;
                } else {
                    kept.push(n);
                }
                Ok(())
            });
            if dropped {
                let r = self.src.range(a);
                let t = if kept.is_empty() { String::new() } else { format!("#[derive({})]", kept.join(", ")) };
                self.push(r, &t, "R1-derive");
            }
        }
    }

    fn visit_item_struct(&mut self, st: &'ast syn::ItemStruct) {
        // R7: private fields become pub (visibility only; lets contracts name the fields)
        for f in st.fields.iter() {
            if matches!(f.vis, syn::Visibility::Inherited) {
                let at = match &f.ident {
                    Some(id) => self.src.range(id).0,
                    None => self.src.range(&f.ty).0,
                };
                self.edits.push(Edit { start: at, end: at, text: "pub ".into(), rule: "R7-vis", label: None, prio: 0 });
            }
        }
        syn::visit::visit_item_struct(self, st);
    }

    fn visit_visibility(&mut self, v: &'ast syn::Visibility) {
        if let syn::Visibility::Restricted(r) = v {
            let rg = self.src.range(r);
            self.push(rg, "pub", "R7-vis");
        }
    }

    fn visit_stmt(&mut self, s: &'ast syn::Stmt) {
        match s {
            syn::Stmt::Macro(m) if is_tracing_macro(&m.mac) => {
                let r = self.src.range(s);
                // field values that can panic (arithmetic, indexing, unwrap) are evaluated whenever the callsite is enabled:
                // keep them as `let _ = <expr>;` so that overflow / bounds obligations are generated for them
                let kept = tracing_field_exprs(&m.mac);
                if kept.is_empty() {
                    self.push(r, "", "R1-tracing");
                } else {
                    let t: String = kept.iter().map(|e| format!("let _ = {};", e)).collect::<Vec<_>>().join(" ");
                    self.push(r, &t, "R1-tracing-keep-partial-field-exprs");
                }
                return;
            }
            syn::Stmt::Macro(m) if m.mac.path.is_ident("assert_eq") || m.mac.path.is_ident("assert_ne") || m.mac.path.is_ident("assert") => {
                let keep = if m.mac.path.is_ident("assert") { 1 } else { 2 };
                if let Ok(args) = m.mac.parse_body_with(syn::punctuated::Punctuated::<syn::Expr, syn::Token![,]>::parse_terminated) {
                    if args.len() > keep {
                        // delete from the end of the last kept argument to the end of the last argument
                        let last_kept = self.src.range(&args[keep - 1]).1;
                        let last = self.src.range(&args[args.len() - 1]).1;
                        // also swallow a trailing comma if present
                        let mut end = last;
                        let rest = &self.src.text[last..];
                        let trimmed = rest.trim_start();
                        if trimmed.starts_with(',') {
                            end = last + (rest.len() - trimmed.len()) + 1;
                        }
                        self.push((last_kept, end), "", "R15-assert-msg");
                    }
                }
                return;
            }
            syn::Stmt::Item(syn::Item::Use(u)) => {
                // `use crate::...;` inside a body: redundant after flattening
                let t = self.src.slice(self.src.range(u)).to_string();
                if norm(&t).starts_with("use crate::") || norm(&t).starts_with("use super::") {
                    let r = self.src.range(s);
                    self.push(r, "", "R7-use");
                    return;
                }
            }
            _ => {}
        }
        syn::visit::visit_stmt(self, s);
    }

    fn visit_expr_macro(&mut self, m: &'ast syn::ExprMacro) {
        if is_tracing_macro(&m.mac) {
            let r = self.src.range(m);
            self.push(r, "()", "R1-tracing");
        } else if m.mac.path.is_ident("format") {
            // R23: `format!(..)` in expression position -> `vx_format()` (an opaque String; message text is not part of any contract)
            let r = self.src.range(m);
            self.push(r, "vx_format()", "R23-format");
        }
    }

    fn visit_expr(&mut self, e: &'ast syn::Expr) {
        if !self.expr_rewrites.is_empty() {
            let r = self.src.range(e);
            let t = norm(self.src.slice(r));
            for (a, b) in self.expr_rewrites.clone() {
                if t == a {
                    self.push(r, &b, "R5-expr");
                    return;
                }
            }
        }
        syn::visit::visit_expr(self, e);
    }

    fn visit_expr_closure(&mut self, c: &'ast syn::ExprClosure) {
        // R19: `|_|` -> `|_vx_unused|` (Verus: only variables are supported as closure parameters)
        for (n, p) in c.inputs.iter().enumerate() {
            if let syn::Pat::Wild(w) = p {
                let r = self.src.range(w);
                self.push(r, &format!("_vx_unused{}", n), "R19-closure-wildcard");
            }
        }
        syn::visit::visit_expr_closure(self, c);
    }

    fn visit_expr_if(&mut self, i: &'ast syn::ExprIf) {
        let mut ops = Vec::new();
        let mut toks = Vec::new();
        flatten_and(&i.cond, &mut ops, &mut toks);
        let has_let = ops.iter().any(|e| matches!(e, syn::Expr::Let(_)));
        if has_let && ops.len() > 1 {
            if i.else_branch.is_some() {
                let l = self.src.line_of(self.src.range(i).0);
                self.errors.push(format!("{}:{}: let-chain with else branch is outside rewrite R2", self.src.rel, l));
            } else {
                for t in &toks {
                    let r = self.src.span_range(*t);
                    self.push(r, "{ if", "R2-letchain");
                }
                let end = self.src.range(&i.then_branch).1;
                let closing = " }".repeat(toks.len());
                self.edits.push(Edit { start: end, end, text: closing, rule: "R2-letchain-close", label: None, prio: -10 });
            }
        }
        syn::visit::visit_expr_if(self, i);
    }

    fn visit_expr_method_call(&mut self, m: &'ast syn::ExprMethodCall) {
        if m.method == "to_le_bytes" && m.args.is_empty() {
            let r = self.src.range(&m.method);
            self.push(r, "vx_to_le_bytes", "R5-le");
        }
        if (m.method == "map_err" || m.method == "map") && m.args.len() == 1 {
            // R16: enum-variant constructor used as a function value -> eta-expanded closure
            if let syn::Expr::Path(pp) = &m.args[0] {
                let last = pp.path.segments.last().map(|s| s.ident.to_string()).unwrap_or_default();
                if pp.path.segments.len() >= 2 && last.chars().next().map(|c| c.is_uppercase()).unwrap_or(false) {
                    let r = self.src.range(&m.args[0]);
                    self.edits.push(Edit { start: r.0, end: r.0, text: "|vx_e| ".into(), rule: "R16-eta", label: None, prio: -2 });
                    self.edits.push(Edit { start: r.1, end: r.1, text: "(vx_e)".into(), rule: "R16-eta", label: None, prio: -2 });
                }
            }
        }
        for (name, f, is_mut) in self.method_rewrites.clone() {
            if m.method == name.as_str() {
                let rr = self.src.range(&*m.receiver);
                let pre = if is_mut { format!("{}(&mut ", f) } else if let Some(fr) = f.strip_prefix('&') { format!("{}(&", fr) } else { format!("{}(", f) };
                self.edits.push(Edit { start: rr.0, end: rr.0, text: pre, rule: "R5-method", label: None, prio: 0 });
                let dot_to_paren = (rr.1, self.src.span_range(m.paren_token.span.open()).1);
                let sep = if m.args.is_empty() { "" } else { ", " };
                self.push(dot_to_paren, sep, "R5-method");
            }
        }
        syn::visit::visit_expr_method_call(self, m);
    }

    fn visit_expr_call(&mut self, c: &'ast syn::ExprCall) {
        if let syn::Expr::Path(p) = &*c.func {
            // R17: size_of::<primitive>() -> literal (language fact; Verus cannot call size_of in exec consts)
            if let Some(last) = p.path.segments.last() {
                if last.ident == "size_of" && c.args.is_empty() {
                    if let syn::PathArguments::AngleBracketed(ab) = &last.arguments {
                        if ab.args.len() == 1 {
                            let t = norm(self.src.slice(self.src.range(&ab.args[0])));
                            let lit = match t.as_str() { "u8" | "i8" => Some("1usize"), "u16" | "i16" => Some("2usize"), "u32" | "i32" => Some("4usize"), "u64" | "i64" | "usize" | "isize" => Some("8usize"), "u128" | "i128" => Some("16usize"), _ => None };
                            if let Some(l) = lit {
                                let r = self.src.range(c);
                                self.push(r, l, "R17-size-of");
                                return;
                            }
                        }
                    }
                }
            }
            let segs: Vec<String> = p.path.segments.iter().map(|s| s.ident.to_string()).collect();
            if p.qself.is_none() && segs.len() >= 3 && segs[segs.len() - 3] == "io" && segs[segs.len() - 2] == "Error" && segs[segs.len() - 1] == "new" {
                // R5: std::io::Error::new(kind, msg) -> vx_io_error_new(kind, msg) (bound `dyn Error + Send + Sync` unsupported)
                let r = self.src.range(&p.path);
                self.push(r, "vx_io_error_new", "R5-io-error-new");
                for a in &c.args {
                    self.visit_expr(a);
                }
                return;
            }
            if p.qself.is_none() && segs.len() == 2 && segs[1] == "from_le_bytes" && (segs[0] == "u32" || segs[0] == "u64") {
                let r = self.src.range(&p.path);
                self.push(r, &format!("vx_{}_from_le_bytes", segs[0]), "R5-le");
                for a in &c.args {
                    self.visit_expr(a);
                }
                return;
            }
        }
        syn::visit::visit_expr_call(self, c);
    }

    fn visit_path(&mut self, p: &'ast syn::Path) {
        let full: String = p.segments.iter().map(|s| s.ident.to_string()).collect::<Vec<_>>().join("::");
        for (a, b) in self.path_rewrites.clone() {
            if full == a {
                // replace the segment idents only (generic arguments of the last segment are kept)
                let st = self.src.range(p).0;
                let en = self.src.range(&p.segments.last().unwrap().ident).1;
                self.push((st, en), &b, "R5-path");
                for seg in p.segments.iter() {
                    self.visit_path_arguments(&seg.arguments);
                }
                return;
            }
        }
        let first = p.segments.first().map(|s| s.ident.to_string()).unwrap_or_default();
        let bare_module = MODULE_NAMES.contains(&first.as_str()) && first != "io" && p.segments.len() >= 2 && p.leading_colon.is_none();
        if first == "crate" || first == "super" || bare_module {
            // strip `crate`/`super` and following module segments
            let mut keep_idx = 0;
            for (i, s) in p.segments.iter().enumerate() {
                let n = s.ident.to_string();
                if n == "crate" || n == "super" || (MODULE_NAMES.contains(&n.as_str()) && i + 1 < p.segments.len()) {
                    keep_idx = i + 1;
                } else {
                    break;
                }
            }
            if keep_idx > 0 && keep_idx < p.segments.len() {
                let st = self.src.range(p).0;
                let en = self.src.range(&p.segments[keep_idx]).0;
                self.push((st, en), "", "R7-path");
            }
        }
        syn::visit::visit_path(self, p);
    }
}

/// Statement / loop index of one function body.
pub struct BodyIndex {
    pub stmts: Vec<((usize, usize), String)>, // range, normalised text
    pub loops: Vec<LoopInfo>,
    /// closures in source order: (header start, body start, body end, body is a block)
    pub closures: Vec<(usize, usize, usize, bool)>,
    /// per closure: (parameter names, name of the method/function it is passed to)
    pub closure_info: Vec<(String, String)>,
    /// `let [mut] v = <recv>.lock();` statements: (var, receiver text, stmt end, enclosing block close offset)
    pub lock_lets: Vec<(String, String, usize, usize)>,
    /// `drop(v)` statements: (var, stmt start)
    pub drops: Vec<(String, usize)>,
}
pub struct LoopInfo {
    pub body_open: usize,
    pub iter_start: Option<usize>,
    /// for loops: (for kw start, pat start, pat end, expr start, expr end, body end)
    pub for_parts: Option<(usize, usize, usize, usize, usize, usize)>,
}

struct BodyVisitor<'a> {
    src: &'a Src,
    idx: BodyIndex,
    call_stack: Vec<String>,
}

fn closure_param_names(hdr: &str) -> String {
    // `|a: T, mut b| -> ..` -> "a,b"
    let inner = match (hdr.find('|'), hdr[hdr.find('|').map(|i| i + 1).unwrap_or(0)..].find('|')) { (Some(a), Some(b)) => &hdr[a + 1..a + 1 + b], _ => "" };
    let mut depth = 0i32;
    let mut parts: Vec<String> = vec![String::new()];
    for ch in inner.chars() {
        match ch { '<' | '(' | '[' => { depth += 1; parts.last_mut().unwrap().push(ch); } '>' | ')' | ']' => { depth -= 1; parts.last_mut().unwrap().push(ch); } ',' if depth == 0 => parts.push(String::new()), _ => parts.last_mut().unwrap().push(ch) }
    }
    parts.iter().map(|p| { let n = p.split(':').next().unwrap_or("").trim(); n.trim_start_matches("mut ").trim_start_matches('&').trim().to_string() }).filter(|n| !n.is_empty()).collect::<Vec<_>>().join(",")
}
impl<'a, 'ast> Visit<'ast> for BodyVisitor<'a> {
    fn visit_block(&mut self, b: &'ast syn::Block) {
        let mut close = self.src.span_range(b.brace_token.span.close()).0;
        // a block that ends in a tail expression: the release obligation goes just before that expression
        if let Some(syn::Stmt::Expr(e, None)) = b.stmts.last() {
            let block_like = matches!(e, syn::Expr::If(_) | syn::Expr::Match(_) | syn::Expr::Block(_) | syn::Expr::ForLoop(_) | syn::Expr::While(_) | syn::Expr::Loop(_) | syn::Expr::Unsafe(_));
            if !block_like {
                close = self.src.range(e).0;
            }
        }
        for st in &b.stmts {
            if let syn::Stmt::Local(l) = st {
                if let (syn::Pat::Ident(pi), Some(init)) = (&l.pat, &l.init) {
                    if let syn::Expr::MethodCall(m) = &*init.expr {
                        if (m.method == "lock" || m.method == "write") && m.args.is_empty() {
                            let recv = norm(self.src.slice(self.src.range(&*m.receiver)));
                            self.idx.lock_lets.push((pi.ident.to_string(), recv, self.src.range(st).1, close));
                        }
                    }
                }
            }
            if let syn::Stmt::Expr(syn::Expr::Call(c), _) = st {
                if let syn::Expr::Path(p) = &*c.func {
                    if p.path.is_ident("drop") && c.args.len() == 1 {
                        if let syn::Expr::Path(a) = &c.args[0] {
                            if let Some(id) = a.path.get_ident() {
                                self.idx.drops.push((id.to_string(), self.src.range(st).0));
                            }
                        }
                    }
                }
            }
        }
        syn::visit::visit_block(self, b);
    }
    fn visit_stmt(&mut self, s: &'ast syn::Stmt) {
        let r = self.src.range(s);
        self.idx.stmts.push((r, norm(self.src.slice(r))));
        syn::visit::visit_stmt(self, s);
    }
    fn visit_expr_for_loop(&mut self, l: &'ast syn::ExprForLoop) {
        let open = self.src.span_range(l.body.brace_token.span.open()).0;
        let it = self.src.range(&*l.expr).0;
        let fk = self.src.span_range(l.for_token.span()).0;
        let pr = self.src.range(&*l.pat);
        let er = self.src.range(&*l.expr);
        let be = self.src.range(&l.body).1;
        self.idx.loops.push(LoopInfo { body_open: open, iter_start: Some(it), for_parts: Some((fk, pr.0, pr.1, er.0, er.1, be)) });
        syn::visit::visit_expr_for_loop(self, l);
    }
    fn visit_expr_closure(&mut self, c: &'ast syn::ExprClosure) {
        let hs = self.src.span_range(c.or1_token.span()).0;
        let br = self.src.range(&*c.body);
        self.idx.closures.push((hs, br.0, br.1, matches!(&*c.body, syn::Expr::Block(_))));
        let he = self.src.span_range(c.or2_token.span()).1;
        self.idx.closure_info.push((closure_param_names(&self.src.text[hs..he]), self.call_stack.last().cloned().unwrap_or_default()));
        self.call_stack.push(String::new());
        syn::visit::visit_expr_closure(self, c);
        self.call_stack.pop();
    }
    fn visit_expr_method_call(&mut self, m: &'ast syn::ExprMethodCall) {
        self.visit_expr(&m.receiver);
        self.call_stack.push(m.method.to_string());
        for a in &m.args { self.visit_expr(a); }
        self.call_stack.pop();
    }
    fn visit_expr_call(&mut self, c: &'ast syn::ExprCall) {
        self.visit_expr(&c.func);
        let name = if let syn::Expr::Path(p) = &*c.func { p.path.segments.last().map(|s| s.ident.to_string()).unwrap_or_default() } else { String::new() };
        self.call_stack.push(name);
        for a in &c.args { self.visit_expr(a); }
        self.call_stack.pop();
    }
    fn visit_expr_while(&mut self, l: &'ast syn::ExprWhile) {
        let open = self.src.span_range(l.body.brace_token.span.open()).0;
        self.idx.loops.push(LoopInfo { body_open: open, iter_start: None, for_parts: None });
        syn::visit::visit_expr_while(self, l);
    }
    fn visit_expr_loop(&mut self, l: &'ast syn::ExprLoop) {
        let open = self.src.span_range(l.body.brace_token.span.open()).0;
        self.idx.loops.push(LoopInfo { body_open: open, iter_start: None, for_parts: None });
        syn::visit::visit_expr_loop(self, l);
    }
}

fn find_anchor(idx: &BodyIndex, anchor: &str) -> Result<(usize, usize), String> {
    // anchor syntax: `text` or `text #n` (n-th match, 1-based)
    let (text, nth) = match anchor.rsplit_once(" #") {
        Some((t, n)) if n.trim().parse::<usize>().is_ok() => (t.trim(), n.trim().parse::<usize>().unwrap()),
        _ => (anchor.trim(), 0),
    };
    // `== text`: the statement's normalised text must equal `text` exactly (e.g. a tail expression that is a bare variable)
    let (text, exact) = match text.strip_prefix("== ") { Some(t) => (t.trim(), true), None => (text, false) };
    let t = norm(text);
    let ms: Vec<_> = idx.stmts.iter().filter(|(_, s)| if exact { *s == t } else { s.starts_with(&t) }).collect();
    if ms.is_empty() {
        return Err(format!("anchor not found: `{}`", text));
    }
    if nth == 0 {
        if ms.len() > 1 {
            // nested statements: a statement and its parents can share a prefix only if the parent
            // starts with the same text; choose the innermost (smallest) when ranges nest.
            let mut best = ms[0];
            let mut ambiguous = false;
            for m in &ms[1..] {
                let (a, b) = (best.0, m.0);
                if b.0 >= a.0 && b.1 <= a.1 {
                    best = m;
                } else if a.0 >= b.0 && a.1 <= b.1 {
                } else {
                    ambiguous = true;
                }
            }
            if ambiguous {
                return Err(format!("anchor ambiguous ({} matches): `{}`", ms.len(), text));
            }
            return Ok(best.0);
        }
        Ok(ms[0].0)
    } else if nth <= ms.len() {
        Ok(ms[nth - 1].0)
    } else {
        Err(format!("anchor `{}` has only {} matches", text, ms.len()))
    }
}

pub enum Found<'a> {
    Item(&'a syn::Item),
    ImplFn(&'a syn::ItemImpl, &'a syn::ImplItemFn),
    TraitImpl(&'a syn::ItemImpl),
}

fn type_name(t: &syn::Type) -> String {
    match t {
        syn::Type::Path(p) => p.path.segments.last().map(|s| s.ident.to_string()).unwrap_or_default(),
        syn::Type::Reference(r) => type_name(&r.elem),
        _ => String::new(),
    }
}

pub fn find_item<'a>(file: &'a syn::File, sel: &[String]) -> Result<Found<'a>, String> {
    let kind = sel.first().map(|s| s.as_str()).unwrap_or("");
    let items: Vec<&syn::Item> = file.items.iter().collect();
    match kind {
        "const" | "struct" | "enum" | "type" | "fn" | "trait" => {
            let name = sel.get(1).ok_or("missing name")?;
            for it in items {
                let ok = match (kind, it) {
                    ("const", syn::Item::Const(c)) => c.ident == name,
                    ("struct", syn::Item::Struct(c)) => c.ident == name,
                    ("enum", syn::Item::Enum(c)) => c.ident == name,
                    ("type", syn::Item::Type(c)) => c.ident == name,
                    ("fn", syn::Item::Fn(c)) => c.sig.ident == name,
                    ("trait", syn::Item::Trait(c)) => c.ident == name,
                    _ => false,
                };
                if ok {
                    return Ok(Found::Item(it));
                }
            }
            Err(format!("item not found: {}", sel.join(" ")))
        }
        "impl" => {
            // impl <Type> fn <name>   |   impl <Type> trait <Trait>
            let ty = sel.get(1).ok_or("missing type")?;
            let what = sel.get(2).map(|s| s.as_str()).unwrap_or("");
            let name = sel.get(3).ok_or("missing name")?;
            for it in items {
                if let syn::Item::Impl(im) = it {
                    if type_name(&im.self_ty) != *ty {
                        continue;
                    }
                    if what == "fn" && im.trait_.is_none() {
                        for ii in &im.items {
                            if let syn::ImplItem::Fn(f) = ii {
                                if f.sig.ident == name {
                                    return Ok(Found::ImplFn(im, f));
                                }
                            }
                        }
                    } else if what == "trait" {
                        if let Some((_, p, _)) = &im.trait_ {
                            if p.segments.last().map(|s| s.ident == name).unwrap_or(false) {
                                return Ok(Found::TraitImpl(im));
                            }
                        }
                    }
                }
            }
            Err(format!("item not found: {}", sel.join(" ")))
        }
        _ => Err(format!("bad selector: {}", sel.join(" "))),
    }
}

/// functions defined in a source file: name -> [(owner type or "", returns Result)]
/// R20: a helper function that is expanded at its call sites
pub struct InlineDef {
    pub src: String,
    pub owner: String,
    pub name: String,
    pub params: Vec<(String, String)>,
    pub has_self: bool,
    pub has_try: bool,
    pub body: String,
}

struct InlineScan { has_return: bool, has_try: bool }
impl<'ast> Visit<'ast> for InlineScan {
    fn visit_expr_return(&mut self, _r: &'ast syn::ExprReturn) { self.has_return = true; }
    fn visit_expr_try(&mut self, t: &'ast syn::ExprTry) { self.has_try = true; syn::visit::visit_expr_try(self, t); }
    fn visit_expr_closure(&mut self, _c: &'ast syn::ExprClosure) {}
    fn visit_item(&mut self, _i: &'ast syn::Item) {}
}

/// call sites of inlinable helpers inside one function body
struct InlineCalls<'a> { src: &'a Src, defs: &'a [InlineDef], self_ty: String, hits: Vec<((usize, usize), usize, Vec<(usize, usize)>, bool)>, try_operands: Vec<(usize, usize)> }
impl<'a, 'ast> Visit<'ast> for InlineCalls<'a> {
    fn visit_expr_try(&mut self, t: &'ast syn::ExprTry) {
        self.try_operands.push(self.src.range(&*t.expr));
        syn::visit::visit_expr_try(self, t);
    }
    fn visit_expr_call(&mut self, c: &'ast syn::ExprCall) {
        if let syn::Expr::Path(p) = &*c.func {
            let segs: Vec<String> = p.path.segments.iter().map(|s| s.ident.to_string()).collect();
            let last = segs.last().cloned().unwrap_or_default();
            for (k, d) in self.defs.iter().enumerate() {
                if d.name != last || d.has_self || d.src != self.src.rel { continue; }
                let ok = (segs.len() == 1 && d.owner.is_empty()) || (segs.len() == 2 && !d.owner.is_empty() && (segs[0] == "Self" && self.self_ty == d.owner || segs[0] == d.owner));
                if ok && c.args.len() == d.params.len() {
                    let r = self.src.range(c);
                    let args = c.args.iter().map(|a| self.src.range(a)).collect();
                    self.hits.push((r, k, args, false));
                }
            }
        }
        syn::visit::visit_expr_call(self, c);
    }
    fn visit_expr_method_call(&mut self, m: &'ast syn::ExprMethodCall) {
        let recv = norm(self.src.slice(self.src.range(&*m.receiver)));
        for (k, d) in self.defs.iter().enumerate() {
            if d.has_self && m.method == d.name.as_str() && recv == "self" && self.self_ty == d.owner && d.src == self.src.rel && m.args.len() == d.params.len() {
                let r = self.src.range(m);
                let args = m.args.iter().map(|a| self.src.range(a)).collect();
                self.hits.push((r, k, args, true));
            }
        }
        syn::visit::visit_expr_method_call(self, m);
    }
}

fn edits_text(src: &Src, range: (usize, usize), edits: &[Edit]) -> Result<String, String> {
    let ls = apply_edits(src, range, edits.to_vec())?;
    Ok(ls.into_iter().map(|(t, _, _)| t).collect::<Vec<_>>().join("\n"))
}

fn skel_cfg_present(dirs: &[Dir]) -> bool { dirs.iter().any(|d| matches!(d, Dir::SkelCfg(_))) }

fn local_fn_table(src: &Src) -> BTreeMap<String, Vec<(String, bool)>> {
    let mut t: BTreeMap<String, Vec<(String, bool)>> = BTreeMap::new();
    for it in &src.file.items {
        match it {
            syn::Item::Fn(f) => t.entry(f.sig.ident.to_string()).or_default().push((String::new(), skel::returns_result(src, &f.sig))),
            syn::Item::Impl(im) if im.trait_.is_none() => {
                let ty = type_name(&im.self_ty);
                for ii in &im.items {
                    if let syn::ImplItem::Fn(f) = ii {
                        t.entry(f.sig.ident.to_string()).or_default().push((ty.clone(), skel::returns_result(src, &f.sig)));
                    }
                }
            }
            _ => {}
        }
    }
    t
}

fn apply_edits(src: &Src, range: (usize, usize), mut edits: Vec<Edit>) -> Result<Vec<(String, Option<usize>, Option<String>)>, String> {
    // returns output lines with (text, source line, label)
    edits.retain(|e| e.start >= range.0 && e.end <= range.1);
    // drop edits strictly contained in a larger replacing edit
    let snapshot = edits.clone();
    edits.retain(|e| {
        !snapshot.iter().any(|o| {
            (o.start, o.end) != (e.start, e.end) && o.end > o.start && o.start <= e.start && e.end <= o.end
                && !(e.start == e.end && (e.start == o.start || e.start == o.end))
        })
    });
    // insertion edits (start==end) at the same offset keep spec order (stable sort)
    edits.sort_by(|a, b| a.start.cmp(&b.start).then((a.end != a.start).cmp(&(b.end != b.start))).then(a.prio.cmp(&b.prio)));
    let mut out: Vec<(String, Option<usize>, Option<String>)> = Vec::new();
    let mut cur = String::new();
    let mut cur_src: Option<usize> = None;
    let mut cur_label: Option<String> = None;
    let mut pos = range.0;
    let mut flush_text = |t: &str, srcline: Option<usize>, label: &Option<String>, out: &mut Vec<(String, Option<usize>, Option<String>)>, cur: &mut String, cur_src: &mut Option<usize>, cur_label: &mut Option<String>| {
        let mut line_no = srcline;
        for ch in t.chars() {
            if ch == '\n' {
                out.push((std::mem::take(cur), cur_src.or(line_no), cur_label.clone().or(label.clone())));
                *cur_src = None;
                *cur_label = None;
                if let Some(l) = line_no.as_mut() {
                    *l += 1;
                }
            } else {
                if cur.is_empty() || cur_src.is_none() {
                    if line_no.is_some() {
                        *cur_src = line_no;
                    }
                }
                if label.is_some() {
                    *cur_label = label.clone();
                }
                cur.push(ch);
            }
        }
    };
    let mut last_end = range.0;
    for e in &edits {
        if e.start < last_end {
            return Err(format!("overlapping edits at {}:{} ({})", src.rel, src.line_of(e.start), e.rule));
        }
        let t = &src.text[pos..e.start];
        flush_text(t, Some(src.line_of(pos)), &None, &mut out, &mut cur, &mut cur_src, &mut cur_label);
        flush_text(&e.text, None, &e.label, &mut out, &mut cur, &mut cur_src, &mut cur_label);
        pos = e.end;
        last_end = e.end;
    }
    let t = &src.text[pos..range.1];
    flush_text(t, Some(src.line_of(pos)), &None, &mut out, &mut cur, &mut cur_src, &mut cur_label);
    out.push((cur, cur_src, cur_label));
    Ok(out)
}

/// Split contract text into labelled chunks: a line containing `/*@name*/` labels itself and the
/// following lines until the next label.
fn labelled_lines(text: &str, default: &str) -> Vec<(String, String)> {
    let mut label = default.to_string();
    let mut out = Vec::new();
    for l in text.lines() {
        if let Some(i) = l.find("/*") {
            if let Some(j) = l[i..].find("*/") {
                let inner = l[i + 2..i + j].trim().trim_start_matches('@').trim();
                if !inner.is_empty() && inner.chars().all(|c| c.is_alphanumeric() || c == '_') {
                    label = inner.to_string();
                }
            }
        }
        out.push((l.to_string(), label.clone()));
    }
    out
}

struct OutLine {
    text: String,
    src: Option<(String, usize)>,
    func: Option<String>,
    label: Option<String>,
}

struct Emitter {
    lines: Vec<OutLine>,
    rules: BTreeMap<String, usize>,
    functions: Vec<serde_json::Value>,
    trusted: Vec<String>,
    missing_anchors: Vec<String>,
    unknown_calls: Vec<String>,
}

impl Emitter {
    fn raw(&mut self, text: &str, label: Option<&str>) {
        for l in text.lines() {
            self.lines.push(OutLine { text: l.to_string(), src: None, func: None, label: label.map(|s| s.to_string()) });
        }
    }
}

/// push hint text as labelled chunks: lines carrying `/*@name*/` become obligation `fn::name`, others `fn::hint`
fn push_hint(edits: &mut Vec<Edit>, at: usize, text: &str, fname: &str, lead_nl: bool) {
    let chunks = labelled_lines(text.trim_end(), "hint");
    let mut curl = String::new();
    let mut buf = String::new();
    if lead_nl { buf.push('\n'); }
    for (l, lab) in chunks {
        if lab != curl && buf.trim().len() > 0 {
            edits.push(Edit { start: at, end: at, text: std::mem::take(&mut buf), rule: "proof-hint", label: Some(format!("{}::{}", fname, curl)), prio: 1 });
        }
        curl = lab;
        buf.push_str(&l);
        buf.push('\n');
    }
    if !buf.is_empty() {
        edits.push(Edit { start: at, end: at, text: buf, rule: "proof-hint", label: Some(format!("{}::{}", fname, curl)), prio: 1 });
    }
}

/// anchors ending in `?` are optional: if the statement is gone the hint is skipped (the proof then
/// fails on its own and is reported as a violated obligation, not as an extraction problem)
fn find_anchor_opt(idx: &BodyIndex, anchor: &str, fname: &str, missing: &mut Vec<String>) -> Result<Option<(usize, usize)>, String> {
    let a = anchor.trim();
    if let Some(stripped) = a.strip_prefix("? ") {
        match find_anchor(idx, stripped) {
            Ok(r) => Ok(Some(r)),
            Err(e) => { missing.push(format!("{}: {}", fname, e)); Ok(None) }
        }
    } else {
        find_anchor(idx, a).map(Some).map_err(|e| format!("{}: {}", fname, e))
    }
}

fn fn_edits(src: &Src, take: &Take, sig: &syn::Signature, block: &syn::Block, fname: &str, edits: &mut Vec<Edit>, missing: &mut Vec<String>) -> Result<(), String> {
    let mut bv = BodyVisitor { src, idx: BodyIndex { stmts: vec![], loops: vec![], closures: vec![], closure_info: vec![], lock_lets: vec![], drops: vec![] }, call_stack: vec![] };
    bv.visit_block(block);
    let idx = bv.idx;
    let body_open = src.span_range(block.brace_token.span.open()).0;
    let body_close = src.span_range(block.brace_token.span.close()).0;
    let mut last_replaced: Option<(usize, usize)> = None;
    let mut contracted_closures: Vec<usize> = Vec::new();
    for sub in &take.subs {
        match sub {
            Sub::Contract(text) => {
                // R3: name the return value
                if let syn::ReturnType::Type(_, ty) = &sig.output {
                    let r = src.range(&**ty);
                    let name = take.ret.clone().unwrap_or_else(|| "r".to_string());
                    edits.push(Edit { start: r.0, end: r.0, text: format!("({}: ", name), rule: "R3-ret", label: None, prio: -1 });
                    edits.push(Edit { start: r.1, end: r.1, text: ")".to_string(), rule: "R3-ret", label: None, prio: -1 });
                }
                let mut t = String::from("\n");
                // keep labels: one Edit per labelled chunk so the map knows the clause label
                let chunks = labelled_lines(text, "contract");
                let mut curl = String::new();
                let mut buf = String::new();
                for (l, lab) in chunks {
                    if lab != curl && !buf.is_empty() {
                        edits.push(Edit { start: body_open, end: body_open, text: std::mem::take(&mut buf), rule: "contract", label: Some(format!("{}::{}", fname, curl)), prio: 1 });
                    }
                    curl = lab;
                    buf.push_str(&l);
                    buf.push('\n');
                }
                if !buf.is_empty() {
                    edits.push(Edit { start: body_open, end: body_open, text: buf, rule: "contract", label: Some(format!("{}::{}", fname, curl)), prio: 1 });
                }
                t.clear();
            }
            Sub::Loop(n, iter_name, text) => {
                let li = idx.loops.get(n - 1).ok_or(format!("{}: loop #{} not found (function has {} loops)", fname, n, idx.loops.len()))?;
                if let (Some(name), Some(it)) = (iter_name, li.iter_start) {
                    edits.push(Edit { start: it, end: it, text: format!("{}: ", name), rule: "R10-iter", label: None, prio: 0 });
                }
                let chunks = labelled_lines(text, &format!("loop{}", n));
                let mut curl = String::new();
                let mut buf = String::from("\n");
                for (l, lab) in chunks {
                    if lab != curl && buf.trim().len() > 0 {
                        edits.push(Edit { start: li.body_open, end: li.body_open, text: std::mem::take(&mut buf), rule: "loop-invariant", label: Some(format!("{}::{}", fname, curl)), prio: 1 });
                    }
                    curl = lab;
                    buf.push_str(&l);
                    buf.push('\n');
                }
                if !buf.is_empty() {
                    edits.push(Edit { start: li.body_open, end: li.body_open, text: buf, rule: "loop-invariant", label: Some(format!("{}::{}", fname, curl)), prio: 1 });
                }
            }
            Sub::LoopStart(n, text) => {
                let li = idx.loops.get(n - 1).ok_or(format!("{}: loop #{} not found (function has {} loops)", fname, n, idx.loops.len()))?;
                let p = li.body_open + 1;
                push_hint(edits, p, text, fname, true);
            }
            Sub::Closure(n, hdr, text) => {
                // the n-th closure, checked by its parameter names; if the numbering moved, the unique closure with those names
                let want = closure_param_names(hdr);
                let mut pick = *n - 1;
                if idx.closure_info.get(pick).map(|ci| ci.0 != want).unwrap_or(true) {
                    let cands: Vec<usize> = idx.closure_info.iter().enumerate().filter(|(k, ci)| ci.0 == want && !contracted_closures.contains(k)).map(|(k, _)| k).collect();
                    if cands.len() == 1 { pick = cands[0]; } else { return Err(format!("{}: closure #{} `|{}|` that carries a contract is gone or ambiguous (lost anchor)", fname, n, want)); }
                }
                contracted_closures.push(pick);
                let c = idx.closures.get(pick).ok_or(format!("{}: closure #{} not found (function has {} closures)", fname, n, idx.closures.len()))?;
                let lab = Some(format!("{}::closure{}", fname, n));
                edits.push(Edit { start: c.0, end: c.1, text: format!("{}\n{}", hdr, text), rule: "R14-closure-contract", label: lab.clone(), prio: 0 });
                if !c.3 {
                    edits.push(Edit { start: c.1, end: c.1, text: "{ ".into(), rule: "R14-closure-brace", label: None, prio: 2 });
                    edits.push(Edit { start: c.2, end: c.2, text: " }".into(), rule: "R14-closure-brace", label: None, prio: -20 });
                }
            }
            Sub::Before(anchor, text) => {
                match find_anchor_opt(&idx, anchor, fname, missing)? {
                    Some(r) => push_hint(edits, r.0, text, fname, false),
                    None => if text.contains("/*@") { return Err(format!("{}: the statement `{}` that carries labelled obligations is gone (lost anchor)", fname, anchor)); }
                }
            }
            Sub::After(anchor, text) => {
                match find_anchor_opt(&idx, anchor, fname, missing)? {
                    Some(r) => push_hint(edits, r.1, text, fname, true),
                    None => if text.contains("/*@") { return Err(format!("{}: the statement `{}` that carries labelled obligations is gone (lost anchor)", fname, anchor)); }
                }
            }
            Sub::Replace(anchor, text) => {
                last_replaced = None;
                if let Some(r) = find_anchor_opt(&idx, anchor, fname, missing)? {
                    edits.push(Edit { start: r.0, end: r.1, text: text.trim_end().to_string(), rule: "R8-replace-stmt", label: Some(format!("{}::r8", fname)), prio: 0 });
                    last_replaced = Some(r);
                }
            }
            Sub::LockRelease(recv_sub, text) => {
                let hits: Vec<_> = idx.lock_lets.iter().filter(|(_, r, _, _)| r.contains(recv_sub.as_str())).collect();
                if hits.is_empty() {
                    return Err(format!("{}: no `let g = ….{}.lock();` statement any more: the critical section carrying release obligations is gone (lost anchor)", fname, recv_sub));
                }
                for (var, _, stmt_end, block_close) in hits {
                    let g = format!("vx_old_{}", var);
                    edits.push(Edit { start: *stmt_end, end: *stmt_end, text: format!("\nlet ghost {} = *{};\n", g, var), rule: "R9-lock-release", label: None, prio: 0 });
                    let body = text.replace("$old", &g).replace("$new", &format!("(*{})", var));
                    let mut dropped = false;
                    for (dv, at) in idx.drops.iter() {
                        if dv == var && *at > *stmt_end && *at < *block_close {
                            push_hint(edits, *at, &format!("proof {{\n{}\n}}", body.trim_end()), fname, false);
                            dropped = true;
                        }
                    }
                    if !dropped {
                        push_hint(edits, *block_close, &format!("proof {{\n{}\n}}", body.trim_end()), fname, true);
                    }
                }
            }
            Sub::ReplacedText(exp) => {
                if let Some(r) = last_replaced {
                    if norm(src.slice(r)) != norm(exp) {
                        return Err(format!("{}: the statement replaced by an R8 stub no longer has the expected text (line {}); the stub's contract is not justified for the new text", fname, src.line_of(r.0)));
                    }
                }
            }
            Sub::LoopIter(n, text) => {
                let li = idx.loops.get(n - 1).ok_or(format!("{}: loop #{} not found", fname, n))?;
                let f = li.for_parts.ok_or(format!("{}: loop #{} is not a for loop", fname, n))?;
                let orig = src.text[f.3..f.4].to_string();
                edits.push(Edit { start: f.3, end: f.4, text: text.replace('$', &orig), rule: "R11b-loop-iter", label: None, prio: 0 });
            }
            Sub::ForToLoop(n, text) => {
                // R11: `for PAT in EXPR { B }` -> `{ let mut vx_it = EXPR; loop <inv> { let PAT = <text>; B } }`
                let li = idx.loops.get(n - 1).ok_or(format!("{}: loop #{} not found", fname, n))?;
                let f = li.for_parts.ok_or(format!("{}: loop #{} is not a for loop", fname, n))?;
                // f = (for_kw_start, pat_start, pat_end, expr_start, expr_end, body_close_end)
                let pat = src.text[f.1..f.2].to_string();
                edits.push(Edit { start: f.0, end: f.3, text: "{ let mut vx_it = ".into(), rule: "R11-for-to-loop", label: None, prio: -5 });
                edits.push(Edit { start: f.4, end: f.4, text: "; loop ".into(), rule: "R11-for-to-loop", label: None, prio: -5 });
                let p = li.body_open + 1;
                edits.push(Edit { start: p, end: p, text: format!("\nlet {} = {};\n", pat, text.trim()), rule: "R11-for-to-loop", label: None, prio: -5 });
                edits.push(Edit { start: f.5, end: f.5, text: " }".into(), rule: "R11-for-to-loop", label: None, prio: -30 });
            }
            Sub::Start(text) => {
                let p = body_open + 1;
                push_hint(edits, p, text, fname, true);
            }
            Sub::End(text) => {
                push_hint(edits, body_close, text, fname, true);
            }
            _ => {}
        }
    }
    // closures whose result matters to the caller but that carry no contract: Verus knows nothing about their result
    const ERR_PATH_ADAPTORS: &[&str] = &["map_err", "inspect_err", "inspect", "with_context", "ok_or_else", "spawn", "for_each"];
    if !take.stub {
        for (k, ci) in idx.closure_info.iter().enumerate() {
            if contracted_closures.contains(&k) || ERR_PATH_ADAPTORS.contains(&ci.1.as_str()) { continue; }
            missing.push(format!("closure-without-contract: {} | {} | {} | {}", fname, ci.1, ci.0, src.line_of(idx.closures[k].0)));
        }
    }
    Ok(())
}

fn do_extract(args: &BTreeMap<String, String>) -> Result<(), String> {
    let repo = args.get("repo").ok_or("--repo")?;
    let spec_path = args.get("spec").ok_or("--spec")?;
    let cdir = args.get("contracts").ok_or("--contracts")?;
    let out_path = args.get("out").ok_or("--out")?;
    let map_path = args.get("map").ok_or("--map")?;
    let spec_text = std::fs::read_to_string(spec_path).map_err(|e| format!("{spec_path}: {e}"))?;
    let mut dirs = spec::parse(&spec_text, cdir)?;
    // --extra <file>: additional directives (auto-resolved dependencies) inserted before the final include
    if let Some(extra) = args.get("extra") {
        if let Ok(t) = std::fs::read_to_string(extra) {
            let ex = spec::parse(&t, cdir)?;
            let pos = dirs.iter().rposition(|d| matches!(d, Dir::Include(p) if p.ends_with("tail.rs"))).unwrap_or(dirs.len());
            for (k, d) in ex.into_iter().enumerate() {
                dirs.insert(pos + k, d);
            }
        }
    }
    let mut srcs: BTreeMap<String, Src> = BTreeMap::new();
    let mut cur_src: Option<String> = None;
    let mut em = Emitter { lines: vec![], rules: BTreeMap::new(), functions: vec![], trusted: vec![], missing_anchors: vec![], unknown_calls: vec![] };
    let mut unit = String::new();
    let mut auto_queue: Vec<(String, String, String)> = Vec::new();
    let mut method_rewrites: Vec<(String, String, bool)> = Vec::new();
    let mut path_rewrites: Vec<(String, String)> = Vec::new();
    // ---- L2 pre-pass: registry of skeletonised functions ("Type::fn" -> (skeleton name, returns Result))
    let mut skel_cfg = skel::Cfg::default();
    let mut inlined_helpers: Vec<String> = Vec::new();
    let mut all_fn_names: Vec<String> = Vec::new();
    let mut pure_checks: Vec<(String, String, usize, Option<String>, Option<String>)> = Vec::new();
    // parameter names the contract texts were written against (committed baseline): a renamed parameter is renamed in the
    // contract/hint texts of that function as well (R22)
    let params_baseline: serde_json::Value = args.get("params-baseline").and_then(|p| std::fs::read_to_string(p).ok()).and_then(|t| serde_json::from_str(&t).ok()).unwrap_or(json!({}));
    let mut param_names_out: BTreeMap<String, Vec<String>> = BTreeMap::new();
    let mut registry: BTreeMap<String, (String, bool)> = BTreeMap::new();
    {
        let mut cs: Option<String> = None;
        for d in &dirs {
            match d {
                Dir::SkelCfg(p) => skel_cfg = skel::load_cfg(&format!("{}/{}", cdir, p))?,
                Dir::Source(p) => {
                    if !srcs.contains_key(p) {
                        srcs.insert(p.clone(), Src::load(repo, p)?);
                    }
                    cs = Some(p.clone());
                }
                Dir::Take(t) if t.skel => {
                    let sp = cs.clone().ok_or("@@skel before @@source")?;
                    let src = &srcs[&sp];
                    let found = find_item(&src.file, &t.sel)?;
                    let (key, sig) = match &found {
                        Found::ImplFn(_, f) => (format!("{}::{}", t.sel[1], t.sel[3]), &f.sig),
                        Found::Item(syn::Item::Fn(f)) => (t.sel[1].clone(), &f.sig),
                        Found::TraitImpl(im) => {
                            // trait impl with a single fn (Drop::drop)
                            let f = im.items.iter().find_map(|i| if let syn::ImplItem::Fn(f) = i { Some(f) } else { None }).ok_or("trait impl without fn")?;
                            (format!("{}::{}", t.sel[1], f.sig.ident), &f.sig)
                        }
                        _ => return Err(format!("@@skel {}: not a function", t.sel.join(" "))),
                    };
                    let name = format!("sk_{}", key.replace("::", "_"));
                    registry.insert(key, (name, skel::returns_result(src, sig)));
                }
                _ => {}
            }
        }
    }
    // functions that are new to the crate (not in the committed baseline of function names): callable across files from skeletons
    if skel_cfg_present(&dirs) {
        let base: Vec<String> = args.get("fn-baseline").and_then(|p| std::fs::read_to_string(p).ok()).and_then(|t| serde_json::from_str::<serde_json::Value>(&t).ok())
            .and_then(|v| v.get("names").and_then(|n| n.as_array()).map(|a| a.iter().filter_map(|x| x.as_str().map(|s| s.to_string())).collect())).unwrap_or_default();
        let mut all_names: Vec<String> = Vec::new();
        let mut newfns: Vec<skel::NewFn> = Vec::new();
        let mut files: Vec<String> = Vec::new();
        let mut pure_srcs: Vec<&'static Src> = Vec::new();
        fn walk(dir: &std::path::Path, root: &std::path::Path, out: &mut Vec<String>) {
            if let Ok(rd) = std::fs::read_dir(dir) {
                let mut es: Vec<_> = rd.flatten().collect();
                es.sort_by_key(|e| e.path());
                for e in es {
                    let p = e.path();
                    if p.is_dir() { if p.file_name().map(|n| n != "tests").unwrap_or(true) { walk(&p, root, out); } }
                    else if p.extension().map(|x| x == "rs").unwrap_or(false) && p.file_name().map(|n| n != "tests.rs").unwrap_or(true) {
                        if let Ok(r) = p.strip_prefix(root) { out.push(r.to_string_lossy().to_string()); }
                    }
                }
            }
        }
        walk(&std::path::Path::new(repo).join("src"), std::path::Path::new(repo), &mut files);
        for f in files {
            let Ok(sr) = Src::load(repo, &f) else { continue };
            let sr: &'static Src = Box::leak(Box::new(sr));
            pure_srcs.push(sr);
            let lf: &'static BTreeMap<String, Vec<(String, bool)>> = Box::leak(Box::new(local_fn_table(sr)));
            for (name, cands) in lf.iter() {
                all_names.push(name.clone());
                if !base.is_empty() && !base.contains(name) {
                    for (owner, retres) in cands { newfns.push(skel::NewFn { name: name.clone(), owner: owner.clone(), retres: *retres, src: sr, local_fns: lf }); }
                }
            }
        }
        all_names.sort(); all_names.dedup();
        all_fn_names = all_names;
        // ---- functions the skeleton rules treat as effect-free (`pure` list) really are: token scan of their bodies, and
        // of the crate functions they call, for mutating filesystem / lock / thread operations ----
        const MUTATORS: &[&str] = &["create", "create_new", "rename", "remove_file", "remove_dir", "remove_dir_all", "create_dir", "create_dir_all",
            "set_len", "set_permissions", "hard_link", "symlink", "persist", "persist_noclobber", "OpenOptions", "NamedTempFile", "tempfile", "tempdir",
            "sync_all", "sync_data", "spawn", "write_all_at", "write_at"];
        let leaked: Vec<&'static Src> = pure_srcs.clone();
        fn body_idents(src: &Src, name: &str, out: &mut Vec<(String, String, usize)>) {
            // (owner, text of body, line) for every fn `name` in the file
            for it in &src.file.items {
                match it {
                    syn::Item::Fn(f) if f.sig.ident == name => out.push((String::new(), src.slice(src.range(&*f.block)).to_string(), src.line_of(src.range(f).0))),
                    syn::Item::Impl(im) => for ii in &im.items { if let syn::ImplItem::Fn(f) = ii { if f.sig.ident == name { out.push((type_name(&im.self_ty), src.slice(src.range(&f.block)).to_string(), src.line_of(src.range(f).0))); } } },
                    _ => {}
                }
            }
        }
        let crate_fns: Vec<String> = all_fn_names.clone();
        for pname in skel_cfg.pure.iter() {
            if !crate_fns.contains(pname) { continue; }
            // skip names that are also std method names used on std receivers (their crate namesakes are registered skeletons or trivial)
            let mut stack: Vec<String> = vec![pname.clone()];
            let mut seen: Vec<String> = vec![];
            let mut hit: Option<String> = None;
            let mut lock_hit: Option<String> = None;
            let mut unknown_lock: Option<String> = None;
            let mut first_loc: Option<(String, usize)> = None;
            while let Some(n) = stack.pop() {
                if seen.contains(&n) || seen.len() > 40 { continue; }
                seen.push(n.clone());
                for sr in leaked.iter() {
                    let mut bodies = vec![];
                    body_idents(sr, &n, &mut bodies);
                    for (owner, text, line) in bodies {
                        // a definition that is itself a registered skeleton is modelled by its skeleton, not by the `pure` rule
                        let key = if owner.is_empty() { n.clone() } else { format!("{}::{}", owner, n) };
                        if registry.contains_key(&key) { continue; }
                        if first_loc.is_none() { first_loc = Some((sr.rel.clone(), line)); }
                        // comments and string literals do not count
                        let mut clean = String::new();
                        {
                            let cs: Vec<char> = text.chars().collect();
                            let mut i = 0;
                            while i < cs.len() {
                                if cs[i] == '/' && i + 1 < cs.len() && cs[i + 1] == '/' { while i < cs.len() && cs[i] != '\n' { i += 1; } }
                                else if cs[i] == '/' && i + 1 < cs.len() && cs[i + 1] == '*' { i += 2; while i + 1 < cs.len() && !(cs[i] == '*' && cs[i + 1] == '/') { i += 1; } i += 2; }
                                else if cs[i] == '"' { i += 1; while i < cs.len() && cs[i] != '"' { if cs[i] == '\\' { i += 1; } i += 1; } i += 1; clean.push(' '); }
                                else { clean.push(cs[i]); i += 1; }
                            }
                        }
                        let text = clean;
                        // lock acquisitions inside a function the rules treat as lock-free. Two outcomes:
                        //  * a guard of a higher lock level bound to a variable (`let g = ….wal.lock();`) that is still alive (same or
                        //    enclosing block, no `drop(g)`) when a lower level is acquired (`….state.read()`, `pending_intents.lock()`):
                        //    a definite inversion of the documented order INTENTS < STATE < WAL -> failing obligation;
                        //  * any other lock acquisition: the rules misdescribe this function -> extraction problem (UNDECIDED).
                        {
                            let squeezed: String = text.chars().filter(|c| !c.is_whitespace()).collect();
                            let level = |st: &str| -> Option<u8> {
                                if st.contains("pending_intents.lock()") { Some(0) }
                                else if st.contains("state.read()") || st.contains("state.write()") || st.contains("read_state()") || st.contains("state.upgradable_read()") { Some(1) }
                                else if st.contains("wal.lock()") { Some(2) } else { None }
                            };
                            let stmts: Vec<&str> = squeezed.split(';').collect();
                            let mut depth: i32 = 0;
                            let mut held: Vec<(u8, String, i32)> = vec![];   // (level, guard variable, block depth)
                            let mut any_lock = false;
                            for st in stmts.iter() {
                                // braces before the statement text proper (a `}` closes blocks and releases their guards)
                                let lv = level(st);
                                if let Some(l) = lv {
                                    any_lock = true;
                                    if let Some((hl, hv, _)) = held.iter().find(|(hl, _, _)| *hl > l) {
                                        if lock_hit.is_none() { lock_hit = Some(format!("an acquisition of lock level {} while the guard `{}` of level {} is held, in {} ({}:{})", l, hv, hl, n, sr.rel, line)); }
                                    }
                                    let body = st.trim_start_matches(|c| c == '{' || c == '}');
                                    if let Some(rest) = body.strip_prefix("let") {
                                        let rest = rest.strip_prefix("mut").unwrap_or(rest);
                                        if let Some(eq) = rest.find('=') {
                                            let var = &rest[..eq];
                                            let acquired_last = st.ends_with("lock()") || st.ends_with("read()") || st.ends_with("write()") || st.ends_with("read_state()");
                                            if acquired_last && var.chars().all(|c| c.is_alphanumeric() || c == '_') && !var.is_empty() && var != "_" {
                                                held.push((l, var.to_string(), depth + st.matches('{').count() as i32 - st.matches('}').count() as i32));
                                            }
                                        }
                                    }
                                }
                                for (_, hv, _) in held.clone().iter() { if st.contains(&format!("drop({})", hv)) { held.retain(|(_, v, _)| v != hv); } }
                                depth += st.matches('{').count() as i32 - st.matches('}').count() as i32;
                                held.retain(|(_, _, d)| *d <= depth);
                            }
                            if lock_hit.is_none() {
                                for pat in [".lock()", ".read()", ".write()", ".read_state()", ".upgradable_read()", ".try_lock_for(", ".try_write_for(", ".try_read_for(", ".lock_arc()", ".read_recursive()"] {
                                    if squeezed.contains(pat) { any_lock = true; }
                                }
                                if any_lock && unknown_lock.is_none() { unknown_lock = Some(format!("`{}` ({}:{}) is on the `pure` list of the skeleton rules but acquires a lock", n, sr.rel, line)); }
                            }
                        }
                        let toks: Vec<&str> = text.split(|c: char| !(c.is_alphanumeric() || c == '_')).filter(|t| !t.is_empty()).collect();
                        for t in toks.iter() {
                            if MUTATORS.contains(t) && hit.is_none() { hit = Some(format!("`{}` in {} ({}:{})", t, n, sr.rel, line)); }
                            if crate_fns.iter().any(|c| c == t) && !skel_cfg.pure.iter().any(|p| p == t) && *t != n && !seen.iter().any(|s| s == t) && !registry.keys().any(|k| k.ends_with(&format!("::{}", t)) || k == t) { stack.push(t.to_string()); }
                        }
                    }
                }
            }
            if let Some((f, l)) = first_loc {
                if lock_hit.is_none() { if let Some(u) = unknown_lock { return Err(format!("EXTRACTION-PROBLEM: {}: its lock behaviour is not modelled", u)); } }
                pure_checks.push((pname.clone(), f, l, hit, lock_hit));
            }
        }
        skel::NEW_FNS.with(|v| { *v.borrow_mut() = newfns.into_iter().map(|f| { let r: &'static skel::NewFn = Box::leak(Box::new(f)); r }).collect(); });
    }
    // R20 pre-pass: helpers to expand at their call sites
    let mut inline_defs: Vec<InlineDef> = Vec::new();
    {
        let mut cur: Option<String> = None;
        for d in &dirs {
            match d {
                Dir::Source(p) => {
                    if !srcs.contains_key(p) { srcs.insert(p.clone(), Src::load(repo, p)?); }
                    cur = Some(p.clone());
                }
                Dir::Inline(sel) => {
                    let sp = cur.clone().ok_or("@@inline before @@source")?;
                    let src = &srcs[&sp];
                    let found = find_item(&src.file, sel).map_err(|e| format!("cannot inline {}: {}", sel.join(" "), e))?;
                    let (owner, sig, block): (String, &syn::Signature, &syn::Block) = match &found {
                        Found::ImplFn(_, f) => (sel[1].clone(), &f.sig, &f.block),
                        Found::Item(syn::Item::Fn(f)) => (String::new(), &f.sig, &*f.block),
                        _ => return Err(format!("cannot inline {}: not a function", sel.join(" "))),
                    };
                    let mut sc = InlineScan { has_return: false, has_try: false };
                    sc.visit_block(block);
                    if sc.has_return { return Err(format!("cannot inline {}: body has an early `return`", sel.join(" "))); }
                    if !sig.generics.params.iter().all(|g| matches!(g, syn::GenericParam::Lifetime(_))) { return Err(format!("cannot inline {}: generic helper", sel.join(" "))); }
                    let mut params = Vec::new();
                    let mut has_self = false;
                    for a in sig.inputs.iter() {
                        match a {
                            syn::FnArg::Receiver(rc) => { if rc.reference.is_none() { return Err(format!("cannot inline {}: by-value self", sel.join(" "))); } has_self = true; }
                            syn::FnArg::Typed(pt) => {
                                let name = match &*pt.pat { syn::Pat::Ident(pi) if pi.by_ref.is_none() && pi.subpat.is_none() => format!("{}{}", if pi.mutability.is_some() { "mut " } else { "" }, pi.ident), _ => return Err(format!("cannot inline {}: parameter pattern", sel.join(" "))) };
                                let ty = norm(src.slice(src.range(&*pt.ty)));
                                if ty.contains("impl ") { return Err(format!("cannot inline {}: `impl Trait` parameter", sel.join(" "))); }
                                params.push((name, ty));
                            }
                        }
                    }
                    let mut auto = Auto { src, edits: vec![], errors: vec![], keep_derives_off: vec![], method_rewrites: dirs.iter().filter_map(|d| if let Dir::RewriteMethod(a, b, c) = d { Some((a.clone(), b.clone(), *c)) } else { None }).collect(), path_rewrites: dirs.iter().filter_map(|d| if let Dir::RewritePath(a, b) = d { Some((a.clone(), b.clone())) } else { None }).collect(), expr_rewrites: vec![] };
                    auto.visit_block(block);
                    if !auto.errors.is_empty() { return Err(format!("cannot inline {}: {}", sel.join(" "), auto.errors.join("; "))); }
                    let body = edits_text(src, src.range(block), &auto.edits)?;
                    inline_defs.push(InlineDef { src: sp.clone(), owner, name: sel.last().cloned().unwrap_or_default(), params, has_self, has_try: sc.has_try, body });
                }
                _ => {}
            }
        }
    }
    for d in &dirs {
        match d {
            Dir::Inline(_) => {}
            Dir::Unit(u) => unit = u.clone(),
            Dir::Include(p) => {
                let t = std::fs::read_to_string(format!("{}/{}", cdir, p)).map_err(|e| format!("include {p}: {e}"))?;
                em.raw(&format!("// ---- include {} ----", p), None);
                em.raw(&t, Some(&format!("include:{}", p)));
            }
            Dir::Raw(t) => em.raw(t, Some("raw")),
            Dir::RewriteMethod(a, b, c) => method_rewrites.push((a.clone(), b.clone(), *c)),
            Dir::SkelCfg(_) => {}
            Dir::RewritePath(a, b) => path_rewrites.push((a.clone(), b.clone())),
            Dir::Source(p) => {
                if !srcs.contains_key(p) {
                    srcs.insert(p.clone(), Src::load(repo, p)?);
                }
                cur_src = Some(p.clone());
            }
            Dir::Take(take0) => {
                let sp = cur_src.clone().ok_or("@@take before @@source")?;
                let src = &srcs[&sp];
                let mut take_owned = take0.clone();
                for s in take_owned.subs.iter_mut() {
                    if let Sub::ContractInclude(p) = s {
                        let t = std::fs::read_to_string(format!("{}/{}", cdir, p)).map_err(|e| format!("contract-include {p}: {e}"))?;
                        *s = Sub::Contract(t);
                    }
                }
                // merge several contract chunks (e.g. shared file + unit-local extra clauses) into one
                {
                    let mut merged = String::new();
                    let mut first: Option<usize> = None;
                    for (i, s) in take_owned.subs.iter().enumerate() {
                        if let Sub::Contract(t) = s {
                            if first.is_none() { first = Some(i); }
                            merged.push_str(t);
                            if !merged.ends_with('\n') { merged.push('\n'); }
                        }
                    }
                    if let Some(fi) = first {
                        let mut k = 0;
                        take_owned.subs.retain(|s| { let keep = !matches!(s, Sub::Contract(_)) || { k += 1; k == 1 }; keep });
                        let pos = take_owned.subs.iter().position(|s| matches!(s, Sub::Contract(_))).unwrap_or(fi);
                        take_owned.subs[pos] = Sub::Contract(merged);
                    }
                }
                {
                    // R22: parameter renames
                    let sig_opt: Option<&syn::Signature> = match find_item(&src.file, &take_owned.sel) {
                        Ok(Found::ImplFn(_, f)) => Some(&f.sig),
                        Ok(Found::Item(syn::Item::Fn(f))) => Some(&f.sig),
                        _ => None,
                    };
                    if let Some(sig) = sig_opt {
                        let cur: Vec<String> = sig.inputs.iter().filter_map(|a| match a { syn::FnArg::Typed(pt) => match &*pt.pat { syn::Pat::Ident(pi) => Some(pi.ident.to_string()), _ => Some(String::from("_")) }, _ => None }).collect();
                        let key = take_owned.sel.join(" ");
                        param_names_out.insert(key.clone(), cur.clone());
                        let base: Vec<String> = params_baseline.get(&unit).or_else(|| params_baseline.get(unit.trim_start_matches("U-").trim_start_matches("S-"))).and_then(|u| u.get(&key)).and_then(|v| v.as_array()).map(|a| a.iter().filter_map(|x| x.as_str().map(|s| s.to_string())).collect()).unwrap_or_default();
                        if base.len() == cur.len() && base != cur {
                            let pairs: Vec<(String, String)> = base.iter().cloned().zip(cur.iter().cloned()).filter(|(a, b)| a != b && a != "_" && b != "_").collect();
                            let sub_words = |t: &str| -> String {
                                // simultaneous word-boundary substitution
                                let mut out = String::new();
                                let cs: Vec<char> = t.chars().collect();
                                let mut i = 0;
                                while i < cs.len() {
                                    if cs[i].is_alphabetic() || cs[i] == '_' {
                                        let st = i;
                                        while i < cs.len() && (cs[i].is_alphanumeric() || cs[i] == '_') { i += 1; }
                                        let w: String = cs[st..i].iter().collect();
                                        match pairs.iter().find(|(a, _)| *a == w) { Some((_, b)) => out.push_str(b), None => out.push_str(&w) }
                                    } else { out.push(cs[i]); i += 1; }
                                }
                                out
                            };
                            for sb in take_owned.subs.iter_mut() {
                                match sb {
                                    Sub::Contract(t) | Sub::Start(t) | Sub::End(t) | Sub::LoopStart(_, t) => *t = sub_words(t),
                                    Sub::Closure(_, _, t) | Sub::Loop(_, _, t) | Sub::Before(_, t) | Sub::After(_, t) | Sub::LockRelease(_, t) => *t = sub_words(t),
                                    _ => {}
                                }
                            }
                            *em.rules.entry("R22-param-rename".to_string()).or_insert(0) += pairs.len();
                        }
                    }
                }
                let take = &take_owned;
                let found = find_item(&src.file, &take.sel)?;
                if let Some(exp) = &take.expect {
                    let r = match &found {
                        Found::Item(it) => src.range(*it),
                        Found::ImplFn(_, f) => src.range(*f),
                        Found::TraitImpl(im) => src.range(*im),
                    };
                    if norm(src.slice(r)) != norm(exp) {
                        return Err(format!("@@expect {}: source text differs from the expected text (the unit's substitution for this item is no longer justified)", take.sel.join(" ")));
                    }
                    *em.rules.entry("expect-checked".to_string()).or_insert(0) += 1;
                    continue;
                }
                let fname_disp = take.sel[1..].iter().filter(|s| *s != "fn" && *s != "trait").cloned().collect::<Vec<_>>().join("::");
                if take.skel {
                    let (key, self_ty, sig, block): (String, String, &syn::Signature, &syn::Block) = match &found {
                        Found::ImplFn(_, f) => (format!("{}::{}", take.sel[1], take.sel[3]), take.sel[1].clone(), &f.sig, &f.block),
                        Found::Item(syn::Item::Fn(f)) => (take.sel[1].clone(), String::new(), &f.sig, &*f.block),
                        Found::TraitImpl(im) => {
                            let f = im.items.iter().find_map(|i| if let syn::ImplItem::Fn(f) = i { Some(f) } else { None }).ok_or("trait impl without fn")?;
                            (format!("{}::{}", take.sel[1], f.sig.ident), take.sel[1].clone(), &f.sig, &f.block)
                        }
                        _ => return Err("@@skel: not a function".into()),
                    };
                    let (skname, retres) = registry.get(&key).cloned().ok_or("skeleton not registered")?;
                    let mut cfg = skel_cfg.clone();
                    let mut roles = take.roles.clone();
                    roles.extend(cfg.roles.clone());
                    cfg.roles = roles;
                    let mut invs: BTreeMap<usize, String> = BTreeMap::new();
                    let mut contract = String::new();
                    for s in &take.subs {
                        match s {
                            Sub::Loop(n, _, t) => { invs.insert(*n, t.clone()); }
                            Sub::Contract(t) => contract.push_str(t),
                            _ => {}
                        }
                    }
                    let drop_self = match &take.drop_self { Some(t) => Some(registry.get(t).map(|x| x.0.clone()).ok_or(format!("drop-self target {} not a skeleton", t))?), None => None };
                    let exit_marker = cfg.exit_markers.iter().find(|(k, _)| *k == key).map(|(_, e)| e.clone());
                    let local_fns = local_fn_table(src);
                    let so = skel::skeleton_of(src, &cfg, &registry, &self_ty, &skname, sig, block, invs, drop_self, exit_marker, &local_fns)?;
                    for (t, n) in so.auto_requests.iter() {
                        if !auto_queue.iter().any(|(a, b, c): &(String, String, String)| *a == sp && b == t && c == n) {
                            auto_queue.push((sp.clone(), t.clone(), n.clone()));
                        }
                    }
                    let sl = src.line_of(src.range(block).0);
                    let fdisp = key.clone();
                    let first_line = em.lines.len() + 1;
                    let hdr = if retres { format!("pub fn {}(w: &mut World) -> (ok: bool)", skname) } else { format!("pub fn {}(w: &mut World)", skname) };
                    em.lines.push(OutLine { text: format!("// skeleton of {} ({}:{})", key, sp, sl), src: Some((sp.clone(), sl)), func: Some(fdisp.clone()), label: None });
                    em.lines.push(OutLine { text: "#[verifier::exec_allows_no_decreases_clause] #[verifier::loop_isolation(false)] #[verifier::allow_complex_invariants]".into(), src: None, func: Some(fdisp.clone()), label: None });
                    em.lines.push(OutLine { text: hdr, src: Some((sp.clone(), sl)), func: Some(fdisp.clone()), label: None });
                    for (l, lab) in labelled_lines(&contract, "contract") {
                        em.lines.push(OutLine { text: l, src: None, func: Some(fdisp.clone()), label: Some(format!("{}::{}", fdisp, lab)) });
                    }
                    em.lines.push(OutLine { text: "{".into(), src: None, func: Some(fdisp.clone()), label: None });
                    for l in so.text.lines() {
                        em.lines.push(OutLine { text: l.to_string(), src: Some((sp.clone(), sl)), func: Some(fdisp.clone()), label: None });
                    }
                    em.lines.push(OutLine { text: "}".into(), src: None, func: Some(fdisp.clone()), label: None });
                    em.functions.push(json!({"name": fdisp, "source": sp, "src_line": sl, "gen_block_first_line": first_line, "gen_first_line": first_line,
                        "gen_last_line": em.lines.len(), "kind": "skel", "has_contract": !contract.trim().is_empty(), "external_body": false, "events": so.events}));
                    for (cname, ctext) in so.closures {
                        let local = cname.rsplit("_closure_").next().unwrap_or("").to_string();
                        let cc = take.closure_contracts.iter().find(|(n, _)| *n == local).map(|(_, t)| t.clone()).unwrap_or_default();
                        let cdisp = format!("{}::closure[{}]", fdisp, local);
                        let f0 = em.lines.len() + 1;
                        em.lines.push(OutLine { text: "#[verifier::exec_allows_no_decreases_clause] #[verifier::loop_isolation(false)] #[verifier::allow_complex_invariants]".into(), src: None, func: Some(cdisp.clone()), label: None });
                        em.lines.push(OutLine { text: format!("pub fn {}(w: &mut World) -> (ok: bool)", cname), src: Some((sp.clone(), sl)), func: Some(cdisp.clone()), label: None });
                        for (l, lab) in labelled_lines(&cc, "contract") {
                            em.lines.push(OutLine { text: l, src: None, func: Some(cdisp.clone()), label: Some(format!("{}::{}", cdisp, lab)) });
                        }
                        em.lines.push(OutLine { text: "{".into(), src: None, func: Some(cdisp.clone()), label: None });
                        for l in ctext.lines() {
                            em.lines.push(OutLine { text: l.to_string(), src: Some((sp.clone(), sl)), func: Some(cdisp.clone()), label: None });
                        }
                        em.lines.push(OutLine { text: "}".into(), src: None, func: Some(cdisp.clone()), label: None });
                        em.functions.push(json!({"name": cdisp, "source": sp, "src_line": sl, "gen_block_first_line": f0, "gen_first_line": f0,
                            "gen_last_line": em.lines.len(), "kind": "skel", "has_contract": !cc.trim().is_empty(), "external_body": false}));
                    }
                    for u in so.unknown_calls { em.unknown_calls.push(u); }
                    for h in so.inlined.iter() { let t = format!("{} (into {})", h, key); if !inlined_helpers.contains(&t) { inlined_helpers.push(t); } }
                    *em.rules.entry("L2-skeleton".to_string()).or_insert(0) += 1;
                    continue;
                }
                let mut auto = Auto { src, edits: vec![], errors: vec![], keep_derives_off: take.drop_derives.clone(), method_rewrites: method_rewrites.clone(), path_rewrites: { let mut v = take.path_rewrites.clone(); v.extend(path_rewrites.clone()); v }, expr_rewrites: take.expr_rewrites.clone() };
                let mut edits: Vec<Edit> = vec![];
                let (range, header, footer): ((usize, usize), String, String);
                match found {
                    Found::Item(it) => {
                        auto.visit_item(it);
                        let r = src.range(it);
                        // syn's item span starts at the first attribute
                        range = r;
                        header = String::new();
                        footer = String::new();
                        match it {
                            syn::Item::Fn(f) => {
                                fn_edits(src, take, &f.sig, &f.block, &fname_disp, &mut edits, &mut em.missing_anchors)?;
                                if take.stub {
                                    let br = src.range(&*f.block);
                                    edits.retain(|e| e.end <= br.0 || e.start >= br.1 || (e.start == br.0 && e.end == br.0));
                                    auto.edits.retain(|e| e.end <= br.0 || e.start >= br.1);
                                    edits.push(Edit { start: br.0, end: br.1, text: "{ unimplemented!() }".into(), rule: "stub-body", label: None, prio: 5 });
                                }
                            }
                            syn::Item::Const(c) => {
                                if let Some(ens) = &take.exec_const {
                                    // R6: const X: T = e;  ->  exec const X: T ensures .. { e }
                                    let cr = src.span_range(c.const_token.span());
                                    edits.push(Edit { start: cr.0, end: cr.0, text: "exec ".into(), rule: "R6-exec-const", label: None, prio: 0 });
                                    let eq = src.span_range(c.eq_token.span());
                                    edits.push(Edit { start: eq.0, end: eq.1, text: format!("\n{}\n{{", ens.trim_end()), rule: "R6-exec-const", label: Some(format!("{}::const", fname_disp)), prio: 0 });
                                    let semi = src.span_range(c.semi_token.span());
                                    edits.push(Edit { start: semi.0, end: semi.1, text: " }".into(), rule: "R6-exec-const", label: None, prio: 0 });
                                }
                            }
                            _ => {}
                        }
                    }
                    Found::ImplFn(im, f) => {
                        auto.visit_impl_item_fn(f);
                        range = src.range(f);
                        // impl header: from `impl` keyword to the opening brace
                        let hs = src.span_range(im.impl_token.span()).0;
                        let he = src.span_range(im.brace_token.span.open()).1;
                        let mut htext = src.text[hs..he].to_string();
                        // apply path flattening to the header as well (rare)
                        htext = htext.replace("pub(crate)", "pub");
                        header = htext;
                        footer = "}".to_string();
                        fn_edits(src, take, &f.sig, &f.block, &fname_disp, &mut edits, &mut em.missing_anchors)?;
                        if !take.stub {
                            if let Some(syn::FnArg::Receiver(rc)) = f.sig.inputs.first() {
                                if let (Some(m), None) = (&rc.mutability, &rc.reference) {
                                    // R13: `mut self` -> `self` + `let mut vx_self = self;` and `self` -> `vx_self` in the body
                                    let r = src.span_range(m.span());
                                    edits.push(Edit { start: r.0, end: r.1, text: String::new(), rule: "R13-mut-self", label: None, prio: 0 });
                                    let bo = src.span_range(f.block.brace_token.span.open()).1;
                                    edits.push(Edit { start: bo, end: bo, text: " let mut vx_self = self;".into(), rule: "R13-mut-self", label: None, prio: -50 });
                                    struct SelfV<'s> { src: &'s Src, out: Vec<(usize, usize)> }
                                    impl<'s, 'ast> Visit<'ast> for SelfV<'s> {
                                        fn visit_expr_path(&mut self, p: &'ast syn::ExprPath) {
                                            if p.path.is_ident("self") { self.out.push(self.src.range(p)); }
                                        }
                                    }
                                    let mut sv = SelfV { src, out: vec![] };
                                    sv.visit_block(&f.block);
                                    for r in sv.out {
                                        edits.push(Edit { start: r.0, end: r.1, text: "vx_self".into(), rule: "R13-mut-self", label: None, prio: 0 });
                                    }
                                }
                            }
                        }
                        if take.stub {
                            // keep the signature only: replace the body block
                            let br = src.range(&f.block);
                            edits.retain(|e| e.end <= br.0 || e.start >= br.1 || (e.start == br.0 && e.end == br.0));
                            auto.edits.retain(|e| e.end <= br.0 || e.start >= br.1);
                            edits.push(Edit { start: br.0, end: br.1, text: "{ unimplemented!() }".into(), rule: "stub-body", label: None, prio: 5 });
                            if let Some(syn::FnArg::Receiver(rc)) = f.sig.inputs.first() {
                                if let (Some(m), None) = (&rc.mutability, &rc.reference) {
                                    let r = src.span_range(m.span());
                                    edits.push(Edit { start: r.0, end: r.1, text: String::new(), rule: "stub-mut-self", label: None, prio: 0 });
                                }
                            }
                        }
                    }
                    Found::TraitImpl(im) => {
                        let it = syn::Item::Impl(im.clone());
                        let _ = it;
                        auto.visit_item_impl(im);
                        range = src.range(im);
                        header = String::new();
                        footer = String::new();
                        // a trait impl with a single fn (Drop::drop, Iterator::next): hints / contract text are woven into it
                        let fns: Vec<&syn::ImplItemFn> = im.items.iter().filter_map(|i| if let syn::ImplItem::Fn(f) = i { Some(f) } else { None }).collect();
                        if let (Some(newname), 1) = (&take.as_inherent, fns.len()) {
                            if let Some((_, tp, for_tok)) = &im.trait_ {
                                let st = src.range(tp).0;
                                let en = src.span_range(for_tok.span()).1;
                                edits.push(Edit { start: st, end: en, text: String::new(), rule: "R18-trait-fn-as-inherent", label: None, prio: 0 });
                                let ir = src.range(&fns[0].sig.ident);
                                edits.push(Edit { start: ir.0, end: ir.1, text: newname.clone(), rule: "R18-trait-fn-as-inherent", label: None, prio: 0 });
                                let fr = src.span_range(fns[0].sig.fn_token.span());
                                edits.push(Edit { start: fr.0, end: fr.0, text: "pub ".into(), rule: "R18-trait-fn-as-inherent", label: None, prio: 0 });
                            }
                        }
                        if fns.len() == 1 && !take.subs.is_empty() {
                            // no R3 (return naming) for trait fns without a return value
                            fn_edits(src, take, &fns[0].sig, &fns[0].block, &fname_disp, &mut edits, &mut em.missing_anchors)?;
                        }
                    }
                }
                if !auto.errors.is_empty() {
                    return Err(auto.errors.join("; "));
                }
                // R20: expand contract-less helpers at their call sites (only in functions whose body is verified)
                if !inline_defs.is_empty() && !take.stub {
                    let body_block: Option<(&syn::Block, String)> = match find_item(&src.file, &take.sel)? {
                        Found::ImplFn(_, f) => Some((&f.block, take.sel[1].clone())),
                        Found::Item(syn::Item::Fn(f)) => Some((&*f.block, String::new())),
                        _ => None,
                    };
                    if let Some((blk, self_ty)) = body_block {
                        let mut ic = InlineCalls { src, defs: &inline_defs, self_ty, hits: vec![], try_operands: vec![] };
                        ic.visit_block(blk);
                        // innermost-last: skip hits nested in another hit (the outer replacement would drop them)
                        let hits = ic.hits.clone();
                        for (r, k, args, _) in hits.iter() {
                            if hits.iter().any(|(o, _, _, _)| o != r && o.0 <= r.0 && r.1 <= o.1) {
                                return Err(format!("cannot inline {}: nested call sites", inline_defs[*k].name));
                            }
                            let d = &inline_defs[*k];
                            if d.has_try && !ic.try_operands.contains(r) {
                                return Err(format!("cannot inline {}: the helper uses `?` but a call site is not followed by `?`", d.name));
                            }
                            let mut t = String::from("{ /* R20: body of the helper `");
                            t.push_str(&d.name);
                            t.push_str("` (not under contract) expanded at its call site */\n");
                            for (i, ar) in args.iter().enumerate() {
                                let at = edits_text(src, *ar, &auto.edits)?;
                                t.push_str(&format!("let vx_arg{}_{} = {};\n", k, i, at));
                            }
                            for (i, (pn, pt)) in d.params.iter().enumerate() {
                                t.push_str(&format!("let {}: {} = vx_arg{}_{};\n", pn, pt, k, i));
                            }
                            t.push_str(&d.body);
                            t.push_str("\n}");
                            edits.push(Edit { start: r.0, end: r.1, text: t, rule: "R20-inline-helper", label: None, prio: 0 });
                        }
                    }
                }
                edits.extend(auto.edits);
                for e in &edits {
                    *em.rules.entry(e.rule.to_string()).or_insert(0) += 1;
                }
                let lines = apply_edits(src, range, edits)?;
                let block_first = em.lines.len() + 1;
                if !header.is_empty() {
                    let hl = src.line_of(range.0);
                    for l in header.lines() {
                        em.lines.push(OutLine { text: l.to_string(), src: Some((sp.clone(), hl)), func: Some(fname_disp.clone()), label: Some("impl-header".into()) });
                    }
                }
                if take.stub {
                    em.lines.push(OutLine { text: "#[verifier::external_body]".into(), src: None, func: Some(fname_disp.clone()), label: Some("attr".into()) });
                    em.trusted.push(format!("stub (signature from source, contract assumed here, proved in its own unit if listed there): {}", fname_disp));
                }
                for a in &take.attrs {
                    em.lines.push(OutLine { text: a.clone(), src: None, func: Some(fname_disp.clone()), label: Some("attr".into()) });
                    if a.contains("external_body") {
                        em.trusted.push(format!("external_body (declared in unit spec): {}", fname_disp));
                    }
                }
                let first_line = em.lines.len() + 1;
                for (t, sl, lab) in lines {
                    em.lines.push(OutLine { text: t, src: sl.map(|l| (sp.clone(), l)), func: Some(fname_disp.clone()), label: lab });
                }
                if !footer.is_empty() {
                    em.lines.push(OutLine { text: footer, src: None, func: Some(fname_disp.clone()), label: None });
                }
                let has_contract = take.subs.iter().any(|s| matches!(s, Sub::Contract(_)));
                em.functions.push(json!({
                    "name": fname_disp, "source": sp, "src_line": src.line_of(range.0),
                    "gen_block_first_line": block_first, "gen_first_line": first_line, "gen_last_line": em.lines.len(),
                    "kind": take.sel[0], "has_contract": has_contract,
                    "external_body": take.stub || take.attrs.iter().any(|a| a.contains("external_body")),
                }));
            }
        }
    }
    // ---- helper functions called by skeletons but not registered: skeletonised without a contract ----
    let mut done_auto: Vec<(String, String, String)> = Vec::new();
    let mut auto_lines: Vec<OutLine> = Vec::new();
    let mut auto_funcs: Vec<serde_json::Value> = Vec::new();
    while let Some((sp, ty, name)) = auto_queue.pop() {
        if done_auto.contains(&(sp.clone(), ty.clone(), name.clone())) { continue; }
        done_auto.push((sp.clone(), ty.clone(), name.clone()));
        let src = &srcs[&sp];
        let sel: Vec<String> = if ty.is_empty() { vec!["fn".into(), name.clone()] } else { vec!["impl".into(), ty.clone(), "fn".into(), name.clone()] };
        let found = match find_item(&src.file, &sel) { Ok(f) => f, Err(_) => continue };
        let (sig, block): (&syn::Signature, &syn::Block) = match &found {
            Found::ImplFn(_, f) => (&f.sig, &f.block),
            Found::Item(syn::Item::Fn(f)) => (&f.sig, &*f.block),
            _ => continue,
        };
        let skname = if ty.is_empty() { format!("sk_auto_{}", name) } else { format!("sk_auto_{}_{}", ty, name) };
        let local_fns = local_fn_table(src);
        let so = skel::skeleton_of(src, &skel_cfg, &registry, &ty, &skname, sig, block, BTreeMap::new(), None, None, &local_fns)?;
        for (t, n) in so.auto_requests.iter() { auto_queue.push((sp.clone(), t.clone(), n.clone())); }
        let retres = skel::returns_result(src, sig);
        let sl = src.line_of(src.range(block).0);
        let fdisp = format!("auto:{}{}{}", ty, if ty.is_empty() { "" } else { "::" }, name);
        let f0 = 0usize;
        let _ = f0;
        auto_lines.push(OutLine { text: format!("// skeleton of {} ({}:{}) — called by a skeleton, not under contract: no ensures (callers learn nothing)", fdisp, sp, sl), src: Some((sp.clone(), sl)), func: Some(fdisp.clone()), label: None });
        auto_lines.push(OutLine { text: "#[verifier::exec_allows_no_decreases_clause] #[verifier::loop_isolation(false)] #[verifier::allow_complex_invariants]".into(), src: None, func: Some(fdisp.clone()), label: None });
        auto_lines.push(OutLine { text: if retres { format!("pub fn {}(w: &mut World) -> (ok: bool)", skname) } else { format!("pub fn {}(w: &mut World)", skname) }, src: Some((sp.clone(), sl)), func: Some(fdisp.clone()), label: None });
        auto_lines.push(OutLine { text: "{".into(), src: None, func: Some(fdisp.clone()), label: None });
        for l in so.text.lines() { auto_lines.push(OutLine { text: l.to_string(), src: Some((sp.clone(), sl)), func: Some(fdisp.clone()), label: None }); }
        auto_lines.push(OutLine { text: "}".into(), src: None, func: Some(fdisp.clone()), label: None });
        auto_funcs.push(json!({"name": fdisp, "source": sp, "src_line": sl, "kind": "skel-auto", "has_contract": false, "external_body": false}));
    }
    // ---- structural facts the skeleton preconditions rely on (who keeps the directory lock alive): one obligation each ----
    for (file, st_name, field, want, label) in skel_cfg.carriers.iter() {
        let Some(src) = srcs.get(file) else { return Err(format!("carrier: source {} is not loaded by this unit", file)); };
        let mut found_line = 0usize;
        let mut holds = false;
        let mut seen = String::from("struct not found");
        for it in src.file.items.iter() {
            if let syn::Item::Struct(st) = it {
                if st.ident != st_name.as_str() { continue; }
                found_line = src.line_of(src.range(st).0);
                seen = String::from("no such field");
                for (i, f) in st.fields.iter().enumerate() {
                    let fname = f.ident.as_ref().map(|x| x.to_string()).unwrap_or_else(|| i.to_string());
                    if let Some(later) = want.strip_prefix("before:") {
                        // field-order fact (drop order = declaration order): `field` is declared before the field `later`
                        let pos_a = st.fields.iter().position(|g| g.ident.as_ref().map(|x| x.to_string().contains(field.as_str())).unwrap_or(false));
                        let pos_b = st.fields.iter().position(|g| g.ident.as_ref().map(|x| x.to_string().contains(later)).unwrap_or(false));
                        seen = format!("positions {:?} / {:?}", pos_a, pos_b);
                        if let (Some(a), Some(b)) = (pos_a, pos_b) { holds = a < b; }
                        let _ = (i, f);
                        break;
                    }
                    if field != "*" && !fname.contains(field.as_str()) { continue; }
                    let ty = norm(src.slice(src.range(&f.ty)));
                    seen = format!("{}: {}", fname, ty);
                    let ok = if let Some(exact) = want.strip_prefix('=') { ty.replace(' ', "") == exact.replace(' ', "") } else { ty.contains(want.as_str()) };
                    if ok { holds = true; break; }
                }
            }
        }
        let fdisp = format!("struct {}", st_name);
        auto_lines.push(OutLine { text: format!("// structural fact ({}:{}): `{}` must hold `{}` — found `{}`", file, found_line, st_name, want, seen), src: Some((file.clone(), found_line)), func: Some(fdisp.clone()), label: None });
        auto_lines.push(OutLine { text: format!("pub fn carrier_{}_{}() {{", st_name, label), src: Some((file.clone(), found_line)), func: Some(fdisp.clone()), label: None });
        auto_lines.push(OutLine { text: format!("    assert(/*@{}*/ {});", label, holds), src: Some((file.clone(), found_line)), func: Some(fdisp.clone()), label: Some(format!("{}::{}", fdisp, label)) });
        auto_lines.push(OutLine { text: "}".into(), src: None, func: Some(fdisp.clone()), label: None });
        auto_funcs.push(json!({"name": fdisp, "source": file, "src_line": found_line, "kind": "skel", "has_contract": true, "external_body": false}));
    }
    for (pname, file, line, hit, lock_hit) in pure_checks.iter() {
        let fdisp = format!("pure {}", pname);
        auto_lines.push(OutLine { text: format!("// `{}` is treated as effect-free by the skeleton rules ({}:{}){}", pname, file, line, match hit { Some(h) => format!(" — but its body (or a callee) uses {}", h), None => String::new() }), src: Some((file.clone(), *line)), func: Some(fdisp.clone()), label: None });
        auto_lines.push(OutLine { text: format!("pub fn purecheck_{}() {{", pname), src: Some((file.clone(), *line)), func: Some(fdisp.clone()), label: None });
        auto_lines.push(OutLine { text: format!("    assert(/*@declared_pure_function_has_no_effect*/ {});", hit.is_none()), src: Some((file.clone(), *line)), func: Some(fdisp.clone()), label: Some(format!("{}::declared_pure_function_has_no_effect", fdisp)) });
        auto_lines.push(OutLine { text: "}".into(), src: None, func: Some(fdisp.clone()), label: None });
        auto_lines.push(OutLine { text: format!("// `{}` is treated as lock-free by the skeleton rules{}", pname, match lock_hit { Some(h) => format!(" — but its body (or a callee) performs {}", h), None => String::new() }), src: Some((file.clone(), *line)), func: Some(fdisp.clone()), label: None });
        auto_lines.push(OutLine { text: format!("pub fn purecheck_lock_{}() {{", pname), src: Some((file.clone(), *line)), func: Some(fdisp.clone()), label: None });
        auto_lines.push(OutLine { text: format!("    assert(/*@declared_pure_function_takes_no_lock*/ {});", lock_hit.is_none()), src: Some((file.clone(), *line)), func: Some(fdisp.clone()), label: Some(format!("{}::declared_pure_function_takes_no_lock", fdisp)) });
        auto_lines.push(OutLine { text: "}".into(), src: None, func: Some(fdisp.clone()), label: None });
        auto_funcs.push(json!({"name": fdisp, "source": file, "src_line": line, "kind": "skel", "has_contract": true, "external_body": false}));
    }
    if !auto_lines.is_empty() {
        // insert before the tail include (the closing of verus!)
        let pos = em.lines.iter().rposition(|l| l.text.starts_with("// ---- include lib/tail.rs")).unwrap_or(em.lines.len());
        let base = pos;
        for (k, l) in auto_lines.into_iter().enumerate() { em.lines.insert(base + k, l); }
        for f in auto_funcs { em.functions.push(f); }
    }
    // write output
    let mut text = String::new();
    let mut map = Vec::new();
    for (i, l) in em.lines.iter().enumerate() {
        text.push_str(&l.text);
        text.push('\n');
        map.push(json!({"l": i + 1, "src": l.src.as_ref().map(|(f, n)| format!("{}:{}", f, n)), "fn": l.func, "label": l.label}));
    }
    std::fs::write(out_path, &text).map_err(|e| format!("{out_path}: {e}"))?;
    // mechanical scan of the trusted base in the generated text
    let mut trusted = em.trusted.clone();
    let mut pending_attr = false;
    for l in text.lines() {
        let t = l.trim();
        if t.contains("assume_specification") {
            if let (Some(a), Some(b)) = (t.find('['), t.find(']')) {
                if a < b {
                    trusted.push(format!("assume_specification {}", norm(&t[a + 1..b])));
                }
            }
        }
        if t.contains("#[verifier::external_body]") {
            pending_attr = true;
            // same-line item
            if let Some(i) = t.find("fn ") {
                let name: String = t[i + 3..].chars().take_while(|c| c.is_alphanumeric() || *c == '_').collect();
                trusted.push(format!("external_body fn {}", name));
                pending_attr = false;
            } else if let Some(i) = t.find("struct ") {
                let name: String = t[i + 7..].chars().take_while(|c| c.is_alphanumeric() || *c == '_').collect();
                trusted.push(format!("external_body type {}", name));
                pending_attr = false;
            }
            continue;
        }
        if pending_attr {
            if let Some(i) = t.find("fn ") {
                let name: String = t[i + 3..].chars().take_while(|c| c.is_alphanumeric() || *c == '_').collect();
                trusted.push(format!("external_body fn {}", name));
                pending_attr = false;
            } else if let Some(i) = t.find("struct ") {
                let name: String = t[i + 7..].chars().take_while(|c| c.is_alphanumeric() || *c == '_').collect();
                trusted.push(format!("external_body type {}", name));
                pending_attr = false;
            } else if !t.starts_with("#[") && !t.is_empty() && !t.starts_with("//") {
                pending_attr = false;
            }
        }
        if (t.starts_with("assume(") || t.contains(" assume(") || t.contains("admit()")) && !t.starts_with("//") {
            trusted.push(format!("ASSUME/ADMIT in generated text: {}", norm(t)));
        }
    }
    trusted.sort();
    trusted.dedup();
    let m = json!({
        "unit": unit, "spec": spec_path, "lines": map, "rewrites": em.rules,
        "functions": em.functions, "trusted": trusted, "missing_optional_anchors": em.missing_anchors.iter().filter(|m| !m.starts_with("closure-without-contract:")).cloned().collect::<Vec<_>>(),
        "closures_without_contract": em.missing_anchors.iter().filter_map(|m| m.strip_prefix("closure-without-contract: ")).map(|m| { let p: Vec<&str> = m.split(" | ").collect(); json!({"fn": p[0], "passed_to": p[1], "params": p[2], "line": p[3]}) }).collect::<Vec<_>>(), "unclassified_calls": em.unknown_calls, "inlined_helpers": inlined_helpers, "crate_fn_names": all_fn_names, "param_names": param_names_out,
    });
    std::fs::write(map_path, serde_json::to_string(&m).unwrap()).map_err(|e| format!("{map_path}: {e}"))?;
    Ok(())
}

fn main() {
    let argv: Vec<String> = std::env::args().collect();
    if argv.len() < 2 {
        eprintln!("usage: vx extract|skel|calls ...");
        std::process::exit(3);
    }
    let mut args = BTreeMap::new();
    let mut i = 2;
    while i < argv.len() {
        if let Some(k) = argv[i].strip_prefix("--") {
            let v = argv.get(i + 1).cloned().unwrap_or_default();
            args.insert(k.to_string(), v);
            i += 2;
        } else {
            i += 1;
        }
    }
    let r = match argv[1].as_str() {
        "extract" => do_extract(&args),
        "skel" => skel::do_skel(&args),
        "calls" => skel::do_calls(&args),
        _ => Err("unknown command".to_string()),
    };
    if let Err(e) = r {
        eprintln!("vx: EXTRACTION-PROBLEM: {}", e);
        std::process::exit(3);
    }
}
