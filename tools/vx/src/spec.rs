//! Unit spec (.vspec) parser. Line-oriented:
//!
//! @@unit NAME
//! @@include relative/path.rs          (verbatim, from the contracts dir)
//! @@raw ... @@end                     (verbatim text)
//! @@source src/file.rs
//! @@take <selector>                   (const|struct|enum|type|fn|trait NAME, impl TYPE fn NAME, impl TYPE trait TRAIT)
//! @@.contract                         (following lines: requires/ensures text woven before the body)
//! @@.ret NAME                         (name of the return value, default r)
//! @@.loop N [iter=NAME]               (following lines: invariant/decreases text for the N-th loop)
//! @@.before ANCHOR / @@.after ANCHOR  (following lines inserted before/after the anchored statement)
//! @@.replace ANCHOR                   (R8: statement replaced by the following lines)
//! @@.start / @@.end-of-body           (following lines inserted at body start / before the closing brace)
//! @@.attr                             (following lines emitted before the item, e.g. #[verifier::external_body])
//! @@.exec-const                       (R6; following lines: the ensures clause)
//! @@.drop-derive A,B
//! Lines starting with `@@#` are comments.

#[derive(Debug, Clone)]
pub enum Sub {
    Contract(String),
    ContractInclude(String),
    /// closure ordinal, header text (`|x: T| -> (r: R)`), contract text
    Closure(usize, String, String),
    Loop(usize, Option<String>, String),
    LoopStart(usize, String),
    ForToLoop(usize, String),
    /// R11b: replace the iterable expression of for-loop N: wrapper text with `$` standing for the original expression
    LoopIter(usize, String),
    /// the statement replaced by the preceding @@.replace must have exactly this (normalised) text
    ReplacedText(String),
    /// R9 release obligation: receiver substring of the `.lock()` call, proof text with $old / $new
    LockRelease(String, String),
    Before(String, String),
    After(String, String),
    Replace(String, String),
    Start(String),
    End(String),
    Nop,
}

#[derive(Debug, Clone, Default)]
pub struct Take {
    pub sel: Vec<String>,
    pub subs: Vec<Sub>,
    pub ret: Option<String>,
    pub attrs: Vec<String>,
    pub exec_const: Option<String>,
    pub drop_derives: Vec<String>,
    /// stub: only the signature is taken from the source; body is `unimplemented!()`, external_body
    pub stub: bool,
    /// skel: emit the effect skeleton (L2) instead of the function text
    pub skel: bool,
    pub roles: Vec<(String, String)>,
    pub drop_self: Option<String>,
    pub closure_contracts: Vec<(String, String)>,
    pub path_rewrites: Vec<(String, String)>,
    /// R18: a single-fn trait impl (Drop) is emitted as an inherent method with this name
    pub as_inherent: Option<String>,
    /// expression rewrites `A => B` (exact normalised text of an expression; declared per take)
    pub expr_rewrites: Vec<(String, String)>,
    pub source: Option<String>,
    /// expect: the item's normalised source text must equal this text (else extraction problem)
    pub expect: Option<String>,
}

#[derive(Debug, Clone)]
pub enum Dir {
    Unit(String),
    Include(String),
    Raw(String),
    Source(String),
    Take(Take),
    /// method-call rewrite: `recv.NAME(args)` -> `FN(recv, args)` / `FN(&mut recv, args)` (declared per unit, R5)
    RewriteMethod(String, String, bool),
    SkelCfg(String),
    /// call/type path rewrite: a path whose text equals A (after crate:: stripping) is replaced by B (declared per unit, R5)
    RewritePath(String, String),
    /// `@@inline fn NAME` / `@@inline impl T fn NAME`: a helper of the current @@source that is not under contract is
    /// expanded at its call sites inside the taken functions (R20)
    Inline(Vec<String>),
}

pub fn parse(text: &str, cdir: &str) -> Result<Vec<Dir>, String> {
    let mut out: Vec<Dir> = Vec::new();
    let lines: Vec<&str> = text.lines().collect();
    let mut i = 0;
    // collect body lines until next directive
    fn body(lines: &[&str], i: &mut usize) -> String {
        let mut b = String::new();
        while *i < lines.len() && !lines[*i].starts_with("@@") {
            b.push_str(lines[*i]);
            b.push('\n');
            *i += 1;
        }
        b
    }
    while i < lines.len() {
        let l = lines[i];
        if !l.starts_with("@@") {
            if !l.trim().is_empty() {
                return Err(format!("spec line {}: text outside a directive: {}", i + 1, l));
            }
            i += 1;
            continue;
        }
        let rest = &l[2..];
        let (cmd, arg) = match rest.split_once(char::is_whitespace) {
            Some((c, a)) => (c, a.trim()),
            None => (rest, ""),
        };
        i += 1;
        match cmd {
            c if c.starts_with('#') => {}
            "unit" => out.push(Dir::Unit(arg.to_string())),
            "use" => {
                let t = std::fs::read_to_string(format!("{}/{}", cdir, arg)).map_err(|e| format!("@@use {arg}: {e}"))?;
                out.extend(parse(&t, cdir)?);
            }
            "include" => out.push(Dir::Include(arg.to_string())),
            "source" => out.push(Dir::Source(arg.to_string())),
            "rewrite-path" => {
                let parts: Vec<&str> = arg.split_whitespace().collect();
                if parts.len() != 2 { return Err(format!("spec line {}: @@rewrite-path A B", i)); }
                out.push(Dir::RewritePath(parts[0].to_string(), parts[1].to_string()));
            }
            "inline" => out.push(Dir::Inline(arg.split_whitespace().map(|x| x.to_string()).collect())),
            "rewrite-method" => {
                let parts: Vec<&str> = arg.split_whitespace().collect();
                if parts.len() < 2 { return Err(format!("spec line {}: @@rewrite-method NAME FN [mut]", i)); }
                out.push(Dir::RewriteMethod(parts[0].to_string(), parts[1].to_string(), parts.get(2) == Some(&"mut")));
            }
            "raw" => {
                let mut b = String::new();
                while i < lines.len() && lines[i].trim_end() != "@@end" {
                    b.push_str(lines[i]);
                    b.push('\n');
                    i += 1;
                }
                i += 1;
                out.push(Dir::Raw(b));
            }
            "take" | "stub" | "skel" => {
                let sel: Vec<String> = arg.split_whitespace().map(|s| s.to_string()).collect();
                out.push(Dir::Take(Take { sel, stub: cmd == "stub", skel: cmd == "skel", ..Default::default() }));
            }
            "skelcfg" => out.push(Dir::SkelCfg(arg.to_string())),
            "expect" => {
                let sel: Vec<String> = arg.split_whitespace().map(|s| s.to_string()).collect();
                let b = body(&lines, &mut i);
                out.push(Dir::Take(Take { sel, expect: Some(b), ..Default::default() }));
            }
            c if c.starts_with('.') => {
                let b = body(&lines, &mut i);
                let take = match out.last_mut() {
                    Some(Dir::Take(t)) => t,
                    _ => return Err(format!("spec line {}: sub-directive without @@take", i)),
                };
                match &c[1..] {
                    "contract" => take.subs.push(Sub::Contract(b)),
                    "contract-include" => take.subs.push(Sub::ContractInclude(arg.to_string())),
                    "ret" => take.ret = Some(arg.to_string()),
                    "loop" => {
                        let mut parts = arg.split_whitespace();
                        let n: usize = parts.next().and_then(|s| s.parse().ok()).ok_or(format!("bad @@.loop at line {}", i))?;
                        let it = parts.next().and_then(|s| s.strip_prefix("iter=")).map(|s| s.to_string());
                        take.subs.push(Sub::Loop(n, it, b));
                    }
                    "loop-iter" => {
                        let (n, t) = arg.split_once(char::is_whitespace).ok_or(format!("bad @@.loop-iter at line {}", i))?;
                        let n: usize = n.parse().map_err(|_| format!("bad @@.loop-iter at line {}", i))?;
                        take.subs.push(Sub::LoopIter(n, t.trim().to_string()));
                    }
                    "for-to-loop" => {
                        let n: usize = arg.trim().parse().map_err(|_| format!("bad @@.for-to-loop at line {}", i))?;
                        take.subs.push(Sub::ForToLoop(n, b));
                    }
                    "loop-start" => {
                        let n: usize = arg.trim().parse().map_err(|_| format!("bad @@.loop-start at line {}", i))?;
                        take.subs.push(Sub::LoopStart(n, b));
                    }
                    "closure" => {
                        let (n, hdr) = arg.split_once(char::is_whitespace).ok_or(format!("bad @@.closure at line {}", i))?;
                        let n: usize = n.parse().map_err(|_| format!("bad @@.closure ordinal at line {}", i))?;
                        take.subs.push(Sub::Closure(n, hdr.trim().to_string(), b));
                    }
                    "before" => take.subs.push(Sub::Before(arg.to_string(), b)),
                    "after" => take.subs.push(Sub::After(arg.to_string(), b)),
                    "replace" => take.subs.push(Sub::Replace(arg.to_string(), b)),
                    "lock-release" => take.subs.push(Sub::LockRelease(arg.trim().to_string(), b)),
                    "replaced-text" => take.subs.push(Sub::ReplacedText(b)),
                    "start" => take.subs.push(Sub::Start(b)),
                    "end-of-body" => take.subs.push(Sub::End(b)),
                    "attr" => {
                        for l in b.lines() {
                            if !l.trim().is_empty() {
                                take.attrs.push(l.to_string());
                            }
                        }
                    }
                    "exec-const" => take.exec_const = Some(b),
                    "role" => {
                        let (a, r) = arg.rsplit_once(char::is_whitespace).ok_or(format!("bad @@.role at line {}", i))?;
                        take.roles.push((a.trim().to_string(), r.trim().to_string()));
                    }
                    "rewrite-path" => {
                        let parts: Vec<&str> = arg.split_whitespace().collect();
                        if parts.len() != 2 { return Err(format!("spec line {}: @@.rewrite-path A B", i)); }
                        take.path_rewrites.push((parts[0].to_string(), parts[1].to_string()));
                    }
                    "rewrite-expr" => {
                        let (a, b) = arg.split_once("=>").ok_or(format!("spec line {}: @@.rewrite-expr A => B", i))?;
                        take.expr_rewrites.push((a.trim().to_string(), b.trim().to_string()));
                    }
                    "as-inherent" => take.as_inherent = Some(arg.to_string()),
                    "drop-self" => take.drop_self = Some(arg.to_string()),
                    "closure-contract" => take.closure_contracts.push((arg.to_string(), b)),
                    "drop-derive" => take.drop_derives = arg.split(',').map(|s| s.trim().to_string()).collect(),
                    x => return Err(format!("spec line {}: unknown sub-directive .{}", i, x)),
                }
                let _ = Sub::Nop;
            }
            x => return Err(format!("spec line {}: unknown directive {}", i, x)),
        }
    }
    Ok(out)
}
