"""Regenerate contracts/closure_baseline.json from the current /repo tree (run only on the unchanged tree)."""
import json, subprocess, os, tempfile
ROOT = os.path.dirname(os.path.dirname(os.path.abspath(__file__)))
props = json.load(open(os.path.join(ROOT, "contracts/properties.json")))
units = sorted(set(u for p in props["properties"].values() for u in p.get("units", []) if u != "skel"))
base = {}
params = {}
d = tempfile.mkdtemp(dir="/var/tmp")
for u in units:
    subprocess.run([os.path.join(ROOT, "tools/vx/target/release/vx"), "extract", "--repo", os.environ.get("VERIF_REPO", "/repo"), "--spec", os.path.join(ROOT, "contracts/units", u + ".vspec"),
                    "--contracts", os.path.join(ROOT, "contracts"), "--out", os.path.join(d, u + ".rs"), "--map", os.path.join(d, u + ".map.json")], check=True, capture_output=True)
    m = json.load(open(os.path.join(d, u + ".map.json")))
    base[u] = sorted([[c["fn"], c["passed_to"], c["params"]] for c in m.get("closures_without_contract", [])])
    params[u] = m.get("param_names", {})
old = json.load(open(os.path.join(ROOT, "contracts/closure_baseline.json")))
old["units"] = base
json.dump(old, open(os.path.join(ROOT, "contracts/closure_baseline.json"), "w"), indent=1)
json.dump({"_comment": "parameter names of the functions under contract on the pinned tree; the contract and hint texts are written against these names. A renamed parameter is renamed in those texts mechanically (R22).", **params}, open(os.path.join(ROOT, "contracts/param_baseline.json"), "w"), indent=1)
# names of all crate functions on the pinned tree (a function that is not in this list is new to the crate)
subprocess.run([os.path.join(ROOT, "tools/vx/target/release/vx"), "extract", "--repo", os.environ.get("VERIF_REPO", "/repo"), "--spec", os.path.join(ROOT, "contracts/units/skel.vspec"),
                "--contracts", os.path.join(ROOT, "contracts"), "--out", os.path.join(d, "skel.rs"), "--map", os.path.join(d, "skel.map.json")], check=True, capture_output=True)
names = json.load(open(os.path.join(d, "skel.map.json"))).get("crate_fn_names", [])
json.dump({"_comment": "names of all functions of the crate (src/, tests excluded) on the pinned tree. A call from a skeletonised function to a function whose name is NOT listed here is a call to a function new to the crate; it is expanded at the call site even when it is defined in another file.", "names": names}, open(os.path.join(ROOT, "contracts/fn_baseline.json"), "w"), indent=0)
print(base)
