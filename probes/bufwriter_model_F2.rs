use vstd::prelude::*;
use std::io::{BufWriter, Write};
use std::fs::File;
verus! {
#[verifier::external_trait_specification]
pub trait ExWrite {
    type ExternalTraitSpecificationFor: std::io::Write;
}
#[verifier::external_type_specification]
#[verifier::external_body]
pub struct ExFile(std::fs::File);
#[verifier::external_type_specification]
#[verifier::external_body]
#[verifier::reject_recursive_types(W)]
pub struct ExBufWriter<W: ?Sized + std::io::Write>(std::io::BufWriter<W>);
#[verifier::external_type_specification]
#[verifier::external_body]
pub struct ExIoError(std::io::Error);

pub struct BwState { pub file: Seq<u8>, pub buf: Seq<u8>, pub synced: nat, pub cap: nat }
pub uninterp spec fn bw<W: ?Sized + std::io::Write>(w: &BufWriter<W>) -> BwState;

// std::io::BufWriter::write_all, transcribed: small writes are buffered; a write that does not fit first flushes the
// buffer (one write(2)), then is written directly if >= capacity (second write(2)) else buffered.
pub open spec fn bw_write_all_ok(s: BwState, d: Seq<u8>) -> BwState {
    if d.len() < s.cap - s.buf.len() { BwState { buf: s.buf + d, ..s } }
    else {
        let s1 = if d.len() > s.cap - s.buf.len() { BwState { file: s.file + s.buf, buf: Seq::<u8>::empty(), ..s } } else { s };
        if d.len() >= s1.cap { BwState { file: s1.file + d, ..s1 } } else { BwState { buf: s1.buf + d, ..s1 } }
    }
}
pub assume_specification<W: ?Sized + std::io::Write> [<BufWriter<W> as Write>::write_all] (w: &mut BufWriter<W>, d: &[u8]) -> (r: Result<(), std::io::Error>)
    ensures r is Ok ==> bw(final(w)) == bw_write_all_ok(bw(old(w)), d@);

fn two_writes(w: &mut BufWriter<File>, h: &[u8], p: &[u8]) -> (r: Result<(), std::io::Error>)
    requires bw(old(w)).buf.len() == 0, bw(old(w)).cap == 8192, h@.len() == 44,
    ensures r is Ok ==> bw(final(w)).file + bw(final(w)).buf == bw(old(w)).file + h@ + p@,
{
    w.write_all(h)?;
    let ghost mid = bw(w);
    w.write_all(p)?;
    proof {
        // crash-atomicity obligation: the file is never a strict, non-empty extension of old that is not the full record
        assert(mid.file == bw(old(w)).file);
        assert(bw(w).file == bw(old(w)).file || bw(w).file == bw(old(w)).file + h@ + p@);  // expected to FAIL for large p (F2)
    }
    Ok(())
}
}
fn main(){}
