use vstd::prelude::*;
use std::collections::BTreeMap;
verus! {
fn t<K: Ord + Clone>(m: &mut BTreeMap<K, u64>, k: K, k2: &K)
    requires vstd::laws_cmp::obeys_cmp_spec::<K>(),
{
    let ghost before = m@;
    let r = m.insert(k, 5);
    assert(m@ == before.insert(k, 5));
    assert(r is Some <==> before.contains_key(k));
    assert(m@.dom().finite());
    let r2 = m.remove(k2);
    assert(r2 is Some ==> before.insert(k,5).contains_key(*k2));
    let g = m.get(k2);
    assert(g is None);
    let l = m.len();
    assert(l == m@.len());
}
}
fn main(){}
