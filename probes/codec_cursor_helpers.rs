use vstd::prelude::*;
verus! {
pub open spec fn le_u32(s: Seq<u8>) -> u32 {
    (s[0] as u32 | (s[1] as u32) << 8 | (s[2] as u32) << 16 | (s[3] as u32) << 24) as u32
}
#[verifier::external_body]
pub fn verif_u32_from_le_bytes(a: [u8; 4]) -> (r: u32)
    ensures r == le_u32(a@)
{ u32::from_le_bytes(a) }
pub assume_specification<T> [ <[T]>::to_vec ] (s: &[T]) -> (r: std::vec::Vec<T>)
    where T: std::clone::Clone
    ensures r@.len() == s@.len(), forall|i: int| 0 <= i < s@.len() ==> cloned(s@[i], #[trigger] r@[i]);
pub enum SerializationError {
    UnexpectedEof { parsing_context: &'static str },
    InsufficientData {
        entity: &'static str,
        expected: usize,
        found: usize,
        parsing_context: &'static str,
    },
    InvalidVariantTag { tag: u8, enum_name: &'static str, parsing_context: &'static str },
}

#[inline]
fn take_bytes<'a>(
    bytes: &mut &'a [u8],
    len: usize,
    entity: &'static str,
    parsing_context: &'static str,
) -> (r: Result<&'a [u8], SerializationError>)
    ensures match r {
        Ok(head) => len <= (*old(bytes))@.len() && head@ == (*old(bytes))@.subrange(0, len as int)
            && (*final(bytes))@ == (*old(bytes))@.subrange(len as int, (*old(bytes))@.len() as int),
        Err(_) => len > (*old(bytes))@.len() && *final(bytes) == *old(bytes),
    }
{
    let (head, rest) = bytes.split_at_checked(len).ok_or(SerializationError::InsufficientData {
        entity,
        expected: len,
        found: bytes.len(),
        parsing_context,
    })?;
    *bytes = rest;
    Ok(head)
}

#[inline]
fn read_u32(bytes: &mut &[u8], parsing_context: &'static str) -> (r: Result<u32, SerializationError>) 
    ensures match r {
        Ok(v) => 4 <= (*old(bytes))@.len() && v == le_u32((*old(bytes))@.subrange(0, 4))
            && (*final(bytes))@ == (*old(bytes))@.subrange(4, (*old(bytes))@.len() as int),
        Err(_) => 4 > (*old(bytes))@.len() && *final(bytes) == *old(bytes),
    }
{
    let head = take_bytes(bytes, 4, "u32", parsing_context)?;
    let mut array = [0u8; 4];
    array.copy_from_slice(head);
    Ok(verif_u32_from_le_bytes(array))
}

#[inline]
fn read_u8(bytes: &mut &[u8], parsing_context: &'static str) -> (r: Result<u8, SerializationError>) {
    let (value, rest) =
        bytes.split_first().ok_or(SerializationError::UnexpectedEof { parsing_context })?;
    *bytes = rest;
    Ok(*value)
}
#[inline]
fn read_bytes_with_len(
    bytes: &mut &[u8],
    parsing_context: &'static str,
) -> (r: Result<Vec<u8>, SerializationError>) 
    ensures match r {
        Ok(v) => 4 <= (*old(bytes))@.len() && ({ let n = le_u32((*old(bytes))@.subrange(0, 4)) as int;
             4 + n <= (*old(bytes))@.len() && v@ == (*old(bytes))@.subrange(4, 4 + n)
            && (*final(bytes))@ == (*old(bytes))@.subrange(4 + n, (*old(bytes))@.len() as int) }),
        Err(_) => true,
    }
{
    let len = read_u32(bytes, parsing_context)? as usize;
    let data = take_bytes(bytes, len, "variable-length bytes", parsing_context)?;
    Ok(data.to_vec())
}
}
fn main(){}
