#![feature(allocator_api)]
use vstd::prelude::*;
use vstd::std_specs::hash::*;
verus! {
pub type HashMap<K, V> = std::collections::HashMap<K, V, std::hash::RandomState>;
#[derive(Clone, Copy, PartialEq, Eq, Hash, Debug)]
pub struct BlobHash(pub [u8; 32]);

#[verifier::external_body]
#[verifier::reject_recursive_types(T)]
pub struct Mutex<T> { t: std::marker::PhantomData<T> }
impl<T> Mutex<T> {
    #[verifier::external_body]
    pub fn lock(&self) -> (g: &mut T) { unimplemented!() }
}
pub assume_specification<'a, T> [std::option::Option::<&T>::copied] (o: std::option::Option<&'a T>) -> (r: std::option::Option<T>)
    where T: std::marker::Copy
    ensures o is None ==> r is None, o is Some ==> r == Some(*o->0);
pub struct IntentMeta { pub blob_hash: BlobHash, pub blob_size: u64 }
#[verifier::reject_recursive_types(K)]
pub struct Index<K> {
    pub pending_intents: Mutex<HashMap<K, BlobHash>>,
}
#[verifier::reject_recursive_types(K)]
pub struct IntentGuard<'a, K> {
    index: &'a Index<K>,
    key: K,
    hash: BlobHash,
    size: u64,
    replaced_hash: Option<BlobHash>,
    committed: bool,
}
pub struct IndexError;
pub open spec fn is_protected<K>(m: Map<K, BlobHash>, h: BlobHash) -> bool {
    exists|k: K| m.contains_key(k) && m[k] == h
}
impl<K: Clone + Eq + std::hash::Hash> Index<K> {
    pub fn register_intent(
        &self,
        key: K,
        meta: IntentMeta,
    ) -> (r: Result<IntentGuard<'_, K>, IndexError>) 
        requires obeys_key_model::<K>(), forall|a: K, b: K| cloned(a, b) ==> a == b,
    {
        let mut intents = self.pending_intents.lock();
        let ghost before = intents@;

        // Check if there was a previous intent for this key
        let replaced_hash = intents.get(&key).copied();

        // Insert the new intent
        intents.insert(key.clone(), meta.blob_hash);
        proof {
            assert(forall|h: BlobHash| is_protected(before, h) ==> is_protected(intents@, h));
        }

        Ok(IntentGuard {
            index: self,
            key,
            hash: meta.blob_hash,
            size: meta.blob_size,
            replaced_hash,
            committed: false,
        })
    }
}
}
fn main(){}
