// Hand-written illustration of what `vx skel` will EMIT (not hand-written in the real pipeline).
use vstd::prelude::*;
verus! {

pub struct World {
    // S-locks
    pub intents: bool, pub state_w: bool, pub state_r: bool, pub wal: bool,
    // S-fs roles for one transaction / one op
    pub sync_mode: bool,
    pub staging_flushed: bool, pub staging_synced: bool, pub blob_at_final: bool,
    pub intent_registered: bool,
    pub walrec_durable: bool, pub applied: bool,
    pub filtered: bool,
    pub snap_renamed: bool,
}

#[verifier::external_body] pub fn nondet() -> bool { unimplemented!() }

// ---- lock levels: INTENTS(1) < STATE(2) < WAL(3)
pub open spec fn may_acq_intents(w: World) -> bool { !w.intents && !w.state_w && !w.state_r && !w.wal }
pub open spec fn may_acq_state(w: World) -> bool { !w.state_w && !w.state_r && !w.wal }
pub open spec fn may_acq_wal(w: World) -> bool { !w.wal }

#[verifier::external_body] pub fn acq_intents(w: &mut World) requires may_acq_intents(*old(w)) ensures *final(w) == (World { intents: true, ..*old(w) }) { unimplemented!() }
#[verifier::external_body] pub fn rel_intents(w: &mut World) requires old(w).intents ensures *final(w) == (World { intents: false, ..*old(w) }) { unimplemented!() }
#[verifier::external_body] pub fn acq_state_w(w: &mut World) requires may_acq_state(*old(w)) ensures *final(w) == (World { state_w: true, ..*old(w) }) { unimplemented!() }
#[verifier::external_body] pub fn rel_state_w(w: &mut World) requires old(w).state_w ensures *final(w) == (World { state_w: false, ..*old(w) }) { unimplemented!() }
#[verifier::external_body] pub fn acq_wal(w: &mut World) requires may_acq_wal(*old(w)) ensures *final(w) == (World { wal: true, ..*old(w) }) { unimplemented!() }
#[verifier::external_body] pub fn rel_wal(w: &mut World) requires old(w).wal ensures *final(w) == (World { wal: false, ..*old(w) }) { unimplemented!() }

// ---- callee contracts (L1-proved facts lifted to World)
// apply_wal_op_unsafe: caller holds STATE_W and WAL; Ok => record durable (U-walio) and applied (U-applywal); Err => neither
#[verifier::external_body] pub fn call_apply_wal_op_unsafe(w: &mut World) -> (ok: bool)
    requires old(w).state_w, old(w).wal, old(w).blob_at_final || true,
    ensures ok ==> *final(w) == (World { walrec_durable: true, applied: true, ..*old(w) }), !ok ==> *final(w) == *old(w)
{ unimplemented!() }
// delete_fn callback = CasManager::delete_blobs : unlink(BLOB old)
#[verifier::external_body] pub fn cb_delete_fn(w: &mut World) -> (ok: bool)
    requires old(w).intents, !old(w).state_w, !old(w).wal,      // S-locks / C04: under INTENTS only
             old(w).walrec_durable, old(w).applied,             // C03/C09: log-before-effect
             old(w).filtered,                                    // C04: filtered against live intents
    ensures *final(w) == *old(w)
{ unimplemented!() }
#[verifier::external_body] pub fn ev_intent_remove_own(w: &mut World) requires old(w).intents ensures *final(w) == *old(w) { unimplemented!() }
#[verifier::external_body] pub fn ev_filter_by_intents(w: &mut World) requires old(w).intents, old(w).applied ensures *final(w) == (World { filtered: true, ..*old(w) }) { unimplemented!() }
#[verifier::external_body] pub fn call_checkpoint_inner(w: &mut World) -> (ok: bool)
    requires old(w).state_w, old(w).wal ensures *final(w) == (World { snap_renamed: final(w).snap_renamed, ..*old(w) })
{ unimplemented!() }

// ---- skeleton of Index::apply_put_op, as vx skel would emit it from src/index/manager.rs:301-339
pub fn skel_apply_put_op(w: &mut World) -> (ok: bool)
    requires may_acq_intents(*old(w)), !old(w).filtered, !old(w).applied, !old(w).walrec_durable,
    ensures !final(w).intents, !final(w).state_w, !final(w).wal, !final(w).state_r,   // all guards released on every exit
            ok ==> final(w).applied && final(w).walrec_durable,
{
    acq_intents(w);                         // let mut intents = self.pending_intents.lock();
    let rolled_over;
    {
        acq_state_w(w);                     //   let mut state = self.state.write();
        acq_wal(w);                         //   let mut wal = self.wal.lock();
        let r = call_apply_wal_op_unsafe(w);//   Self::apply_wal_op_unsafe(&mut state, &mut wal, &logical_op)?
        if !r { rel_wal(w); rel_state_w(w); rel_intents(w); return false; }
        rolled_over = nondet();
        rel_wal(w); rel_state_w(w);         // end of block
    }
    ev_intent_remove_own(w);                // intents.remove(&key);
    ev_filter_by_intents(w);                // unreferenced_from_op.retain(|hash| !intents.values().any(..));
    if nondet() {                           // if !unreferenced_from_op.is_empty()
        let d = cb_delete_fn(w);            //   delete_fn(&unreferenced_from_op).map_err(..)?
        if !d { rel_intents(w); return false; }
    }
    rel_intents(w);                         // drop(intents);
    if rolled_over {
        acq_state_w(w); acq_wal(w);
        let c = call_checkpoint_inner(w);
        if !c { rel_wal(w); rel_state_w(w); return false; }
        rel_wal(w); rel_state_w(w);
    }
    true
}
}
fn main(){}
