#![feature(const_destruct)]
use vstd::prelude::*;
use vstd::std_specs::cmp::OrdSpec;
verus! {
pub assume_specification<T> [std::cmp::min] (a: T, b: T) -> (r: T)
    where T: std::cmp::Ord + std::marker::Destruct
    ensures vstd::laws_cmp::obeys_cmp::<T>() ==> r == (if a.cmp_spec(&b) == std::cmp::Ordering::Greater { b } else { a });

#[derive(Clone, Copy)]
pub struct IndexStateItem { pub blob_hash: u64, pub blob_size: u64 }
pub struct CasManagerError;
pub struct LibError;
pub struct Bytes { pub v: Vec<u8> }
impl Bytes { #[verifier::external_body] pub fn new() -> (r: Bytes) ensures r.v@.len() == 0 { unimplemented!() } }
pub struct CasManager;
pub uninterp spec fn file_of(h: u64) -> Seq<u8>;
impl CasManager {
    #[verifier::external_body]
    pub fn read_blob_range(&self, blob_hash: &u64, range_start: u64, range_end: u64) -> (r: Result<Bytes, CasManagerError>)
        ensures range_start > range_end ==> r is Err,
                r is Ok ==> range_start <= range_end && ({ let f = file_of(*blob_hash); let e = if range_end as int <= f.len() { range_end as int } else { f.len() as int };
                     let s = if range_start as int <= e { range_start as int } else { e }; r->Ok_0.v@ == f.subrange(s, e) })
    { unimplemented!() }
}
pub struct CasInner { pub cas_manager: CasManager }
pub uninterp spec fn index_of(c: &CasInner, key: u64) -> Option<IndexStateItem>;
impl CasInner {
    #[verifier::external_body]
    fn with_blob_item<T, F>(&self, key: &u64, f: F) -> (r: Result<Option<T>, LibError>)
        where F: FnOnce(&IndexStateItem) -> Result<T, CasManagerError>
        requires forall|it: IndexStateItem| #![auto] f.requires((&it,)),
        ensures index_of(self, *key) is None ==> r == Ok::<Option<T>, LibError>(None),
                index_of(self, *key) is Some ==> (match r { Ok(Some(t)) => f.ensures((&index_of(self, *key)->0,), Ok(t)), Ok(None) => false, Err(_) => exists|e: CasManagerError| f.ensures((&index_of(self, *key)->0,), Err(e)) })
    { unimplemented!() }

    pub fn get_range(
        &self,
        key: &u64,
        range_start: u64,
        range_end: u64,
    ) -> (r: Result<Option<Bytes>, LibError>)
        ensures
            index_of(self, *key) is None ==> r == Ok::<Option<Bytes>, LibError>(None),
            index_of(self, *key) is Some && range_start <= range_end ==> ({
                let it = index_of(self, *key)->0; let l = it.blob_size; let f = file_of(it.blob_hash);
                f.len() == l ==> (r is Ok ==> r->Ok_0 is Some && r->Ok_0->0.v@ == f.subrange(if range_start <= l { range_start as int } else { l as int }, if range_end <= l { range_end as int } else { l as int })) }),
    {
        self.with_blob_item(key, |item: &IndexStateItem| -> (res: Result<Bytes, CasManagerError>)
            ensures res is Ok ==> ({ let l = item.blob_size; let f = file_of(item.blob_hash);
                 (f.len() == l && range_start <= range_end) ==> res->Ok_0.v@ == f.subrange(if range_start <= l { range_start as int } else { l as int }, if range_end <= l { range_end as int } else { l as int }) })
        {
            if range_start >= item.blob_size {
                return Ok(Bytes::new());
            }
            let range_end = std::cmp::min(range_end, item.blob_size);

            self.cas_manager.read_blob_range(&item.blob_hash, range_start, range_end)
        })
    }
}
}
fn main(){}
