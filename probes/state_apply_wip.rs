#![feature(allocator_api)]
#![feature(panic_internals)]
#![feature(sized_hierarchy)]
use vstd::prelude::*;
use vstd::std_specs::hash::*;
use vstd::laws_cmp::obeys_cmp_spec;
use std::collections::BTreeMap;
use std::num::NonZeroU64;
verus! {
pub type HashMap<K, V> = std::collections::HashMap<K, V, std::hash::RandomState>;
pub const HASH_SIZE: usize = 32;
#[derive(Clone, Copy, PartialEq, Eq, Hash, Debug)]
pub struct BlobHash(pub [u8; HASH_SIZE]);
#[derive(Debug, Clone, Copy, Default, PartialEq, Eq)]
pub struct CasStats { pub unique_blobs: u64, pub total_bytes: u64 }
#[derive(Debug, Clone, Copy, Default, PartialEq, Eq)]
pub struct IndexStats { pub serialized_size_bytes: u64 }
#[derive(Debug, Clone, Copy, Default, PartialEq, Eq)]
pub struct DbStats { pub cas: CasStats, pub index: IndexStats }
#[derive(Debug, Clone, PartialEq)]
pub enum WalOp<K> {
    Put { key: K, hash: BlobHash, size: u64 },
    Remove { keys: Vec<K> },
}
#[verifier::external_type_specification]
pub struct ExAssertKind(core::panicking::AssertKind);
pub assume_specification<T, U> [core::panicking::assert_failed] (_0: core::panicking::AssertKind, _1: &T, _2: &U, _3: std::option::Option<std::fmt::Arguments<'_>>) -> !
    where T: std::marker::MetaSized + std::fmt::Debug + ?Sized, U: std::marker::MetaSized + std::fmt::Debug + ?Sized,
    requires false;

pub assume_specification<'a, K, V, S, A, Q> [std::collections::HashMap::<K, V, S, A>::get_mut] (m: &'a mut std::collections::HashMap<K, V, S, A>, k: &Q) -> (r: std::option::Option<&'a mut V>)
    where
        A: std::alloc::Allocator,
        K: std::cmp::Eq + std::hash::Hash + std::borrow::Borrow<Q>,
        Q: std::marker::MetaSized + std::hash::Hash + std::cmp::Eq + ?Sized,
        S: std::hash::BuildHasher,
    ensures
        obeys_key_model::<K>() && builds_valid_hashers::<S>() ==> (match r {
            Some(v) => contains_borrowed_key(old(m)@, k)
                && maps_borrowed_key_to_value(old(m)@, k, *v)
                && maps_borrowed_key_to_value(final(m)@, k, *final(v))
                && final(m)@.dom() == old(m)@.dom()
                && (forall|key: K| #![auto] old(m)@.contains_key(key) && !maps_borrowed_key_to_value(old(m)@.restrict(set![key]), k, *v) ==> final(m)@[key] == old(m)@[key])
            ,
            None => !contains_borrowed_key(old(m)@, k) && final(m)@ == old(m)@,
        }),
;
pub assume_specification<'a, K, V> [std::collections::hash_map::Entry::<'a, K, V>::or_default] (e: std::collections::hash_map::Entry<'a, K, V>) -> (r: &'a mut V)
    where V: std::default::Default
    ensures
        (match e.value() { Some(v) => *r == v, None => call_ensures(V::default, (), *r) }),
        e.final_value() == Some(*final(r)),
;

// ---- spec ----
pub open spec fn op_size_consistent<K>(m: Map<K, IndexStateItem>, op: WalOp<K>) -> bool {
    match op {
        WalOp::Put { key, hash, size } => forall|k: K| #![auto] m.contains_key(k) && m[k].blob_hash == hash ==> m[k].blob_size == size,
        WalOp::Remove { keys } => true,
    }
}
pub proof fn lemma_cnt_pos<K>(m: Map<K, IndexStateItem>, k: K)
    requires m.contains_key(k), m.dom().finite(),
    ensures cnt(m, m[k].blob_hash) > 0,
{
    let h = m[k].blob_hash;
    let f = m.dom().filter(|x: K| m[x].blob_hash == h);
    assert(f.contains(k));
    if f.len() == 0 { assert(f =~= Set::<K>::empty()); }
}
pub proof fn lemma_cnt_replace<K>(m: Map<K, IndexStateItem>, k: K, it: IndexStateItem, h: BlobHash)
    requires m.contains_key(k), m.dom().finite(),
    ensures cnt(m.insert(k, it), h) + (if m[k].blob_hash == h { 1nat } else { 0nat }) == cnt(m, h) + (if it.blob_hash == h { 1nat } else { 0nat }),
{
    lemma_cnt_remove(m, k, h);
    lemma_cnt_insert_new(m.remove(k), k, it, h);
    assert(m.remove(k).insert(k, it) =~= m.insert(k, it));
}

pub open spec fn item_of(hash: BlobHash, size: u64) -> IndexStateItem { IndexStateItem { blob_hash: hash, blob_size: size } }
pub open spec fn remove_seq<K>(m: Map<K, IndexStateItem>, ks: Seq<K>, n: nat) -> Map<K, IndexStateItem>
    decreases n
{ if n == 0 { m } else { remove_seq(m, ks, (n - 1) as nat).remove(ks[n - 1]) } }
pub open spec fn model_apply<K>(m: Map<K, IndexStateItem>, op: WalOp<K>) -> Map<K, IndexStateItem> {
    match op {
        WalOp::Put { key, hash, size } => m.insert(key, item_of(hash, size)),
        WalOp::Remove { keys } => remove_seq(m, keys@, keys@.len()),
    }
}
pub open spec fn wf<K>(s: IndexState<K>) -> bool {
    refs_wf(s.key_to_hash@, s.hash_to_ref_count@)
    && s.stats.cas.unique_blobs as nat == s.hash_to_ref_count@.dom().len()
}
pub open spec fn pos_rc(rc: Map<BlobHash, u32>) -> bool { forall|h: BlobHash| rc.contains_key(h) ==> rc[h] > 0 }
pub proof fn lemma_wf_pos<K>(s: IndexState<K>)
    requires refs_wf(s.key_to_hash@, s.hash_to_ref_count@)
    ensures pos_rc(s.hash_to_ref_count@)
{
    assert forall|h: BlobHash| s.hash_to_ref_count@.contains_key(h) implies s.hash_to_ref_count@[h] > 0 by {
        assert(cnt(s.key_to_hash@, h) > 0);
    }
}

pub open spec fn rc_get(rc: Map<BlobHash, u32>, h: BlobHash) -> nat {
    if rc.contains_key(h) { rc[h] as nat } else { 0 }
}
pub open spec fn frame_ok<K>(a: IndexState<K>, b: IndexState<K>) -> bool {
    a.last_persisted_version == b.last_persisted_version && a.stats.index == b.stats.index
}
pub proof fn lemma_cnt_insert_new<K>(m: Map<K, IndexStateItem>, k: K, it: IndexStateItem, h: BlobHash)
    requires !m.contains_key(k), m.dom().finite(),
    ensures cnt(m.insert(k, it), h) == cnt(m, h) + (if it.blob_hash == h { 1nat } else { 0nat }),
{
    let m2 = m.insert(k, it);
    let f1 = m.dom().filter(|x: K| m[x].blob_hash == h);
    let f2 = m2.dom().filter(|x: K| m2[x].blob_hash == h);
    if it.blob_hash == h { assert(f2 =~= f1.insert(k)); } else { assert(f2 =~= f1); }
}
pub proof fn lemma_cnt_remove<K>(m: Map<K, IndexStateItem>, k: K, h: BlobHash)
    requires m.contains_key(k), m.dom().finite(),
    ensures cnt(m.remove(k), h) + (if m[k].blob_hash == h { 1nat } else { 0nat }) == cnt(m, h),
{
    let m2 = m.remove(k);
    let f1 = m.dom().filter(|x: K| m[x].blob_hash == h);
    let f2 = m2.dom().filter(|x: K| m2[x].blob_hash == h);
    if m[k].blob_hash == h { assert(f2 =~= f1.remove(k)); } else { assert(f2 =~= f1); }
}

pub open spec fn cnt<K>(m: Map<K, IndexStateItem>, h: BlobHash) -> nat {
    m.dom().filter(|k: K| m[k].blob_hash == h).len()
}
pub open spec fn refs_wf<K>(m: Map<K, IndexStateItem>, rc: Map<BlobHash, u32>) -> bool {
    forall|h: BlobHash| #![trigger rc.contains_key(h)] #![trigger cnt(m, h)]
        (rc.contains_key(h) <==> cnt(m, h) > 0) && (rc.contains_key(h) ==> rc[h] as nat == cnt(m, h))
}







#[derive(Debug)]
pub enum IndexStateError {
    DecrementZeroRefCount { hash: BlobHash },
    HashNotFoundForDecrement { hash: BlobHash },
}

#[derive(Debug, Clone, Copy, PartialEq, Eq)]
pub struct IndexStateItem {
    pub blob_hash: BlobHash,
    pub blob_size: u64,
}

#[derive(Debug, Default, Clone)]
pub struct IndexState<K> {
    pub key_to_hash: BTreeMap<K, IndexStateItem>,
    pub hash_to_ref_count: HashMap<BlobHash, u32>,
    pub last_persisted_version: Option<NonZeroU64>,
    pub stats: DbStats,
}

impl<K> IndexState<K> {
    pub fn new() -> Self {
        IndexState {
            key_to_hash: BTreeMap::new(),
            hash_to_ref_count: HashMap::default(),
            last_persisted_version: None,
            stats: DbStats::default(),
        }
    }

    #[verifier::external_body]
    pub fn recompute_stats(&mut self, index_file_size_bytes: u64) {
        let mut unique =
            HashMap::with_capacity_and_hasher(self.hash_to_ref_count.len(), Default::default());

        for item in self.key_to_hash.values() {
            unique.entry(item.blob_hash).or_insert(item.blob_size);
        }

        let unique_blobs = unique.len() as u64;
        let total_bytes = unique.values().copied().sum::<u64>();

        self.stats.cas.unique_blobs = unique_blobs;
        self.stats.cas.total_bytes = total_bytes;
        self.stats.index.serialized_size_bytes = index_file_size_bytes;
    }

    pub fn increment_ref(&mut self, hash: &BlobHash) -> (was_zero: bool)
        requires obeys_key_model::<BlobHash>(), rc_get(old(self).hash_to_ref_count@, *hash) < u32::MAX,
            forall|h: BlobHash| old(self).hash_to_ref_count@.contains_key(h) ==> old(self).hash_to_ref_count@[h] > 0,
        ensures
            final(self).key_to_hash == old(self).key_to_hash, final(self).stats == old(self).stats,
            final(self).last_persisted_version == old(self).last_persisted_version,
            was_zero == !old(self).hash_to_ref_count@.contains_key(*hash),
            final(self).hash_to_ref_count@ == old(self).hash_to_ref_count@.insert(*hash, (rc_get(old(self).hash_to_ref_count@, *hash) + 1) as u32),
    {
        let entry = self.hash_to_ref_count.entry(*hash).or_default();
        let was_zero = *entry == 0;
        *entry += 1;
        was_zero
    }

    pub fn decrement_ref(
        &mut self,
        hash_to_decrement: &BlobHash,
    ) -> (r: Result<Option<BlobHash>, IndexStateError>)
        requires obeys_key_model::<BlobHash>(),
            forall|h: BlobHash| old(self).hash_to_ref_count@.contains_key(h) ==> old(self).hash_to_ref_count@[h] > 0,
        ensures
            final(self).key_to_hash == old(self).key_to_hash, final(self).stats == old(self).stats,
            final(self).last_persisted_version == old(self).last_persisted_version,
            old(self).hash_to_ref_count@.contains_key(*hash_to_decrement) ==> (
                r is Ok && ({ let c = old(self).hash_to_ref_count@[*hash_to_decrement];
                   if c == 1 { r == Ok::<Option<BlobHash>, IndexStateError>(Some(*hash_to_decrement)) && final(self).hash_to_ref_count@ == old(self).hash_to_ref_count@.remove(*hash_to_decrement) }
                   else { r == Ok::<Option<BlobHash>, IndexStateError>(None) && final(self).hash_to_ref_count@ == old(self).hash_to_ref_count@.insert(*hash_to_decrement, (c - 1) as u32) } })),
            !old(self).hash_to_ref_count@.contains_key(*hash_to_decrement) ==> r is Err && final(self).hash_to_ref_count@ == old(self).hash_to_ref_count@,
    {
        match self.hash_to_ref_count.get_mut(hash_to_decrement) {
            Some(count) => {
                if *count == 0 {
                    return Err(IndexStateError::DecrementZeroRefCount {
                        hash: *hash_to_decrement,
                    });
                }
                *count -= 1;
                if *count == 0 {
                    self.hash_to_ref_count.remove(hash_to_decrement);
                    Ok(Some(*hash_to_decrement))
                } else {
                    Ok(None)
                }
            }
            None => Err(IndexStateError::HashNotFoundForDecrement { hash: *hash_to_decrement }),
        }
    }
}

impl<K> IndexState<K>
where
    K: Clone + Ord,
{
    pub fn apply_logical_op(&mut self, op: &WalOp<K>) -> (r: Result<Vec<BlobHash>, IndexStateError>)
        requires
            obeys_key_model::<BlobHash>(), vstd::laws_cmp::obeys_cmp::<K>(),
            forall|a: K, b: K| #[trigger] call_ensures(K::clone, (&a,), b) ==> a == b,
            wf(*old(self)), op_size_consistent(old(self).key_to_hash@, *op),
            forall|h: BlobHash| rc_get(old(self).hash_to_ref_count@, h) < u32::MAX,
            old(self).stats.cas.unique_blobs < u64::MAX,
        ensures
            r is Ok,
            final(self).key_to_hash@ == model_apply(old(self).key_to_hash@, *op),
            wf(*final(self)),
            frame_ok(*old(self), *final(self)),
            forall|h: BlobHash| r->Ok_0@.contains(h) <==> (old(self).hash_to_ref_count@.contains_key(h) && !final(self).hash_to_ref_count@.contains_key(h)),
    {
        let mut unreferenced_hashes = Vec::new();

        match op {
            WalOp::Put { key, hash, size } => {
                let new_item = IndexStateItem { blob_hash: *hash, blob_size: *size };

                match self.key_to_hash.insert(key.clone(), new_item) {
                    None => {
                        proof {
                            lemma_wf_pos(*old(self));
                            assert forall|h: BlobHash| true implies #[trigger] cnt(self.key_to_hash@, h) == cnt(old(self).key_to_hash@, h) + (if *hash == h { 1nat } else { 0nat }) by {
                                lemma_cnt_insert_new(old(self).key_to_hash@, *key, new_item, h);
                            }
                        }
                        // New key → bump refcount of the new hash.
                        if self.increment_ref(hash) {
                            self.stats.cas.unique_blobs += 1;
                            assume(self.stats.cas.total_bytes + *size <= u64::MAX); // PROBE ONLY
                            self.stats.cas.total_bytes += *size;
                        }
                    }
                    Some(prev) if prev.blob_hash != *hash => {
                        // Repoint to a different blob:
                        // 1) decrement old, collect if it drops to zero
                        if let Some(h) = self.decrement_ref(&prev.blob_hash)? {
                            unreferenced_hashes.push(h);
                            self.stats.cas.unique_blobs -= 1;
                            assume(self.stats.cas.total_bytes >= prev.blob_size); // PROBE ONLY
                            self.stats.cas.total_bytes -= prev.blob_size;
                        }

                        // 2) increment new
                        if self.increment_ref(hash) {
                            self.stats.cas.unique_blobs += 1;
                            assume(self.stats.cas.total_bytes + *size <= u64::MAX); // PROBE ONLY
                            self.stats.cas.total_bytes += *size;
                        }
                    }
                    Some(prev) => {
                        // Same blob hash: refcounts unchanged.
                        // just a second insert of same k -> v pair, noop.
                        // size must match for the same hash.
                        assert_eq!(prev.blob_size, *size);
                    }
                }
            }

            WalOp::Remove { keys } => {
                // Remove mappings and decrement each old blob's refcount.
                for key in keys {
                    if let Some(item) = self.key_to_hash.remove(key) {
                        if let Some(h) = self.decrement_ref(&item.blob_hash)?
                    {
                        unreferenced_hashes.push(h);
                        self.stats.cas.unique_blobs -= 1;
                        assume(self.stats.cas.total_bytes >= item.blob_size); // PROBE ONLY
                        self.stats.cas.total_bytes -= item.blob_size;
                    } }
                }
            }
        }

        Ok(unreferenced_hashes)
    }
}

}
fn main(){}
