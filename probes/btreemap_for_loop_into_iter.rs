#![feature(allocator_api)]
use vstd::prelude::*;
use std::collections::BTreeMap;
verus! {
pub assume_specification<'a, K, V, A: std::alloc::Allocator + Clone> [<&'a BTreeMap<K, V, A> as IntoIterator>::into_iter] (m: &'a BTreeMap<K, V, A>) -> (r: std::collections::btree_map::Iter<'a, K, V>)
    ensures call_ensures(BTreeMap::<K, V, A>::iter, (m,), r);
fn ser(map: &BTreeMap<u64, u64>) -> (r: Vec<u64>)
    requires vstd::laws_cmp::obeys_cmp::<u64>(),
    ensures r@.len() == 2 * map@.len(),
{
    let mut result = Vec::new();
    for (key, item) in it: map
        invariant result@.len() == 2 * it.index@,
    {
        result.push(*key);
        result.push(*item);
    }
    result
}
}
fn main(){}
