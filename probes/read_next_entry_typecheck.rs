#![feature(allocator_api)]
#![feature(panic_internals)]
use vstd::prelude::*;
use std::num::NonZeroU64;
use std::path::PathBuf;
use std::fs::File;
use std::io::{ErrorKind, Read};
verus! {
pub const HASH_SIZE: usize = 32;
pub const WAL_ENTRY_VERSION_SIZE: usize = 8;
pub const WAL_ENTRY_OP_HASH_SIZE: usize = HASH_SIZE;
pub const WAL_ENTRY_OP_LEN_SIZE: usize = 4;
pub const WAL_ENTRY_HEADER_SIZE: usize =
    WAL_ENTRY_VERSION_SIZE + WAL_ENTRY_OP_HASH_SIZE + WAL_ENTRY_OP_LEN_SIZE;
#[verifier::external_type_specification]
#[verifier::external_body]
pub struct ExPathBuf(std::path::PathBuf);
#[verifier::external_type_specification]
#[verifier::external_body]
pub struct ExIoError(std::io::Error);
#[verifier::external_type_specification]
#[verifier::external_body]
pub struct ExFile(std::fs::File);
#[verifier::external_type_specification]
pub struct ExErrorKind(std::io::ErrorKind);

#[derive(Clone, Copy, PartialEq, Eq, Debug)]
pub struct BlobHash(pub [u8; 32]);
#[derive(Debug, Clone, Copy)]
pub enum WalReplayIoStep { OpenSegment, ReadHeader, ReadOpData }
#[derive(Debug)]
pub enum WalError {
    InvalidOpVersion { version: u64 },
    ReplayIo { step: WalReplayIoStep, segment_id: u64, path: PathBuf, source: std::io::Error },
    ReplayChecksumMismatch { version: u64, segment_id: u64, expected: BlobHash, actual: BlobHash },
}
pub struct WalEntryRaw {
    pub version: NonZeroU64,
    pub op_data: Vec<u8>,
}
#[verifier::external_body] pub fn calculate_blob_hash(d: &[u8]) -> BlobHash { unimplemented!() }
pub struct SegmentReader {
    file: File,
    segment_id: u64,
    path: PathBuf,
}

impl SegmentReader {
    pub fn new(segment_id: u64, path: PathBuf, file: File) -> Self {
        Self { file, segment_id, path }
    }

    fn read_next_entry(&mut self) -> Result<Option<WalEntryRaw>, WalError> {
        let segment_id = self.segment_id;
        let path = self.path.clone();

        let replay_io =
            |step, source| WalError::ReplayIo { step, segment_id, path: path.clone(), source };
        let hdr_eof = |msg: &'static str| {
            replay_io(
                WalReplayIoStep::ReadHeader,
                std::io::Error::new(ErrorKind::UnexpectedEof, msg),
            )
        };
        let hdr_bad = |msg: &'static str| {
            replay_io(WalReplayIoStep::ReadHeader, std::io::Error::new(ErrorKind::InvalidData, msg))
        };

        // ---- read header ----
        let mut header = [0u8; WAL_ENTRY_HEADER_SIZE];
        match self.file.read_exact(&mut header) {
            Ok(()) => {}
            Err(e) if e.kind() == ErrorKind::UnexpectedEof => {
                return Ok(None);
            }
            Err(e) => return Err(replay_io(WalReplayIoStep::ReadHeader, e)),
        }

        // ---- parse header ----
        let (ver_s, rest) = header
            .split_at_checked(WAL_ENTRY_VERSION_SIZE)
            .ok_or_else(|| hdr_eof("missing version bytes in WAL header"))?;

        let (hash_s, rest) = rest
            .split_at_checked(WAL_ENTRY_OP_HASH_SIZE)
            .ok_or_else(|| hdr_eof("missing hash bytes in WAL header"))?;

        let (len_s, extra) = rest
            .split_at_checked(WAL_ENTRY_OP_LEN_SIZE)
            .ok_or_else(|| hdr_eof("missing op length bytes in WAL header"))?;

        if !extra.is_empty() {
            return Err(hdr_bad("extra bytes in WAL header"));
        }

        let version = u64::from_le_bytes(
            ver_s.try_into().map_err(|_e| hdr_bad("bad version bytes in WAL header"))?,
        );

        if version == 0 {
            return Ok(None);
        }

        let expected =
            BlobHash(hash_s.try_into().map_err(|_e| hdr_bad("bad hash bytes in WAL header"))?);

        let op_len = u32::from_le_bytes(
            len_s.try_into().map_err(|_e| hdr_bad("bad op length bytes in WAL header"))?,
        ) as usize;

        if op_len == 0 {
            return Ok(None);
        }

        // ---- read op data ----
        let mut op_data = vec![0u8; op_len];
        self.file
            .read_exact(&mut op_data)
            .map_err(|e| replay_io(WalReplayIoStep::ReadOpData, e))?;

        // ---- verify ----
        let actual = calculate_blob_hash(&op_data);
        if actual != expected {
            return Err(WalError::ReplayChecksumMismatch { version, segment_id, expected, actual });
        }

        let version = NonZeroU64::new(version).ok_or(WalError::InvalidOpVersion { version })?;
        Ok(Some(WalEntryRaw { version, op_data }))
    }
}


}
fn main(){}
