#![feature(allocator_api)]
#![feature(panic_internals)]
#![feature(sized_hierarchy)]
#![feature(const_destruct)]
use vstd::prelude::*;
use std::num::NonZeroU64;
use std::path::PathBuf;
verus! {

#[verifier::external_type_specification]
#[verifier::external_body]
pub struct ExPath(std::path::Path);
#[verifier::external_type_specification]
#[verifier::external_body]
pub struct ExPathBuf(std::path::PathBuf);
#[verifier::external_type_specification]
#[verifier::external_body]
pub struct ExIoError(std::io::Error);
#[verifier::external_type_specification]
#[verifier::external_body]
pub struct ExParseIntError(std::num::ParseIntError);
#[verifier::external_type_specification]
pub struct ExAssertKind(core::panicking::AssertKind);

pub assume_specification<P> [std::fs::create_dir_all] (_0: P) -> std::result::Result<(), std::io::Error>
    where P: std::convert::AsRef<std::path::Path>;

pub assume_specification<T, U> [core::panicking::assert_failed] (_0: core::panicking::AssertKind, _1: &T, _2: &U, _3: std::option::Option<std::fmt::Arguments<'_>>) -> !
    where T: std::marker::MetaSized + std::fmt::Debug + ?Sized, U: std::marker::MetaSized + std::fmt::Debug + ?Sized,
    requires false;

pub assume_specification [std::num::NonZeroU64::saturating_add] (a: NonZeroU64, b: u64) -> (r: NonZeroU64)
    ensures r.get() == (if a.get() + b > u64::MAX { u64::MAX } else { (a.get() + b) as u64 });

pub assume_specification<T, U, F> [std::option::Option::<T>::map_or] (o: std::option::Option<T>, d: U, f: F) -> (r: U)
    where F: FnOnce(T) -> U
    requires o is Some ==> f.requires((o->0,)),
    ensures o is None ==> r == d, o is Some ==> f.ensures((o->0,), r);

pub assume_specification<T, F> [std::option::Option::<T>::is_none_or] (o: std::option::Option<T>, f: F) -> (r: bool)
    where F: FnOnce(T) -> bool + std::marker::Destruct
    requires o is Some ==> f.requires((o->0,)),
    ensures o is None ==> r, o is Some ==> f.ensures((o->0,), r);
#[derive(Clone, Copy, PartialEq, Eq, Debug)]
pub struct BlobHash(pub [u8; 32]);
#[derive(Debug)] pub struct SerializationError;
#[derive(Debug)] pub struct TypesError;
#[derive(Debug, Clone, Copy, PartialEq, Eq)]
pub enum CheckpointReason { InitialSetup, AfterReplay, SegmentRollover, Explicit }
pub type CheckpointState = Option<NonZeroU64>;
pub enum WalOp<K> { Put{key:K}, Remove{keys: Vec<K>} }
pub trait KeyBytes: Sized {}
#[derive(Clone)]
pub struct DbPaths;
impl DbPaths { #[verifier::external_body] pub fn db_root_path(&self) -> &std::path::Path { unimplemented!() } }
pub struct SegmentStorage { pub paths: DbPaths }
pub struct SegmentWriter { pub segment_id: u64 }
impl SegmentWriter {
  pub fn segment_id(&self) -> u64 { self.segment_id }
  #[verifier::external_body] pub fn seal(self) -> Result<(), WalError> { unimplemented!() }
  #[verifier::external_body] pub fn write_entry(&mut self, v: NonZeroU64, h: BlobHash, d: &[u8]) -> Result<(), WalError> { unimplemented!() }
}
impl SegmentStorage {
  pub fn new(paths: DbPaths) -> Self { Self{paths} }
  #[verifier::external_body] pub fn open_writer(&self, id: u64) -> Result<SegmentWriter, WalError> { unimplemented!() }
  #[verifier::external_body] pub fn prune_stale_segments(&self, id: u64) -> Result<(), WalError> { unimplemented!() }
  #[verifier::external_body] pub fn ensure_segment_file_exists(&self, id: u64, v: u64) -> Result<(), WalError> { unimplemented!() }
}
pub struct WalReplayer<'a> { pub storage: &'a SegmentStorage, pub cp: CheckpointState }
impl<'a> WalReplayer<'a> {
  pub fn new(storage: &'a SegmentStorage, cp: CheckpointState) -> Self { Self{storage, cp} }
  #[verifier::external_body] pub fn replay<K>(&self, f: impl FnMut(WalOp<K>)) -> Result<Option<NonZeroU64>, WalError> { unimplemented!() }
}
#[verifier::external_body] pub fn calculate_blob_hash(d: &[u8]) -> BlobHash { unimplemented!() }
const INITIAL_SEGMENT_ID: u64 = 0;
exec const FIRST_OP_VERSION: NonZeroU64 ensures FIRST_OP_VERSION.get() == 1 { NonZeroU64::new(1).unwrap() }

#[derive(Debug)]
pub(crate) struct WalAppendInfo {
    pub version: NonZeroU64,
    #[allow(unused)]
    pub op_hash: BlobHash,
}

#[derive(Debug)]
pub enum WalError {
    ParseCheckpointMetaSegmentId(std::num::ParseIntError),
    Io {
        operation: WalIoOperation,
        path: Option<PathBuf>,
        source: std::io::Error,
    },
    WriteWalEntryDataIO {
        op_version: NonZeroU64,
        segment_id: u64,
        source: std::io::Error,
    },
    InvalidOpVersion { version: u64 },
    ReplayIo {
        step: WalReplayIoStep,
        segment_id: u64,
        path: PathBuf,
        source: std::io::Error,
    },
    ReplayChecksumMismatch { version: u64, segment_id: u64, expected: BlobHash, actual: BlobHash },
    ReplayDeserializeWalOpRaw {
        version: NonZeroU64,
        segment_id: u64,
        source: SerializationError,
    },
    ReplayConvertWalOp {
        version: NonZeroU64,
        segment_id: u64,
        source: TypesError,
    },
}

#[derive(Debug, Clone, Copy)]
pub enum WalIoOperation {
    CreateDbDir,
    ReadCheckpointMeta,
    OpenSegmentWrite,
    WriteSentinel,
    CreateInitialFile,
    SyncInitialFile,
    FlushWriter,
    SyncData,
    ReadDbDirDiscovery,
    ReadEntryDiscovery,
    RemoveStaleSegment,
}

#[derive(Debug, Clone, Copy)]
pub enum WalReplayIoStep {
    OpenSegment,
    ReadHeader,
    ReadOpData,
}

pub(crate) struct WalManager {
    num_ops_per_wal: NonZeroU64,
    next_op_version: NonZeroU64,

    storage: SegmentStorage,

    active_writer: Option<SegmentWriter>,
}

impl WalManager {
    pub(crate) fn new(paths: DbPaths, num_ops_per_wal: NonZeroU64) -> Result<Self, WalError> {
        std::fs::create_dir_all(paths.db_root_path()).map_err(|e| WalError::Io {
            operation: WalIoOperation::CreateDbDir,
            path: None,
            source: e,
        })?;

        let storage = SegmentStorage::new(paths.clone());
        Ok(WalManager {
            num_ops_per_wal,
            next_op_version: FIRST_OP_VERSION,
            storage,
            active_writer: None,
        })
    }

    /// Decide the checkpoint target version for the given reason without performing any IO.
    /// Returns `Some(version)` when a checkpoint should be performed and `None` when it should be
    /// skipped.
    /// The returned version is the highest written op version (i.e., `next_op_version - 1`).
    pub(crate) fn compute_checkpoint_target(
        &self,
        reason: CheckpointReason,
        last_checkpointed_version: CheckpointState,
    ) -> Option<NonZeroU64> {
        let should_checkpoint = match reason {
            CheckpointReason::InitialSetup => last_checkpointed_version.is_none(),
            CheckpointReason::AfterReplay | CheckpointReason::Explicit => true,
            CheckpointReason::SegmentRollover => match last_checkpointed_version {
                None => self.has_written_ops(),
                Some(version) => self.has_new_ops_since(version),
            },
        };

        if should_checkpoint { self.last_written_op_version() } else { None }
    }

    /// Prune stale segments for the provided checkpoint version.
    /// Idempotent: if `version` is less than or equal to the last checkpointed version, this is a
    /// no-op.
    pub(crate) fn commit_checkpoint(
        &mut self,
        version: NonZeroU64,
        last_checkpointed_version: CheckpointState,
    ) -> Result<(), WalError> {
        // Do not go backwards; allow equal (idempotent).
        if let Some(last) = last_checkpointed_version {
            if version <= last
        {
            return Ok(());
        } }

        // Prune segments where all operations have version <= checkpoint_version
        let last_checkpointed_segment = self.segment_id_for_op_version(version.get());
        let _ = self.storage.prune_stale_segments(last_checkpointed_segment);
        Ok(())
    }

    pub(crate) fn get_next_op_version(&self) -> NonZeroU64 {
        self.next_op_version
    }

    /// get and increment the next operation version, returning the version to use for the current
    /// operation
    pub(crate) fn allocate_next_op_version(&mut self) -> NonZeroU64 {
        let current_version = self.next_op_version;
        // NOTE: currently don't wrap around, so it will be stuck after `u64::MAX` operations.
        // Extremely unlikely to hit this in practise.
        // Will take 500k years at 1m ops/sec.
        self.next_op_version = self.next_op_version.saturating_add(1);
        current_version
    }

    pub(crate) fn replay_and_prepare<K>(
        &mut self,
        last_checkpointed_version: CheckpointState,
        apply_op_fn: impl FnMut(WalOp<K>),
    ) -> Result<(), WalError>
    where
        K: KeyBytes + Clone + Eq + Ord + std::fmt::Debug + 'static,
    {
        let replayer = WalReplayer::new(&self.storage, last_checkpointed_version);

        let highest_op_version = replayer.replay(apply_op_fn)?;
        self.next_op_version = match highest_op_version {
            Some(v) => v.saturating_add(1),
            None => FIRST_OP_VERSION,
        };

        // ensure next segment file exists
        let next_op_version = self.get_next_op_version();
        let target_segment_id = self.segment_id_for_op_version(next_op_version.get());
        self.storage.ensure_segment_file_exists(target_segment_id, next_op_version.get())
    }

    pub(crate) fn append_op(&mut self, op_data: &[u8]) -> Result<WalAppendInfo, WalError> {
        let version = self.allocate_next_op_version();
        let target_segment_id = self.segment_id_for_op_version(version.get());

        // check if we need to roll over to a new segment file.
        let must_rollover =
            self.active_writer.as_ref().is_none_or(|w| w.segment_id() != target_segment_id);
        if must_rollover {
            if let Some(old_writer) = self.active_writer.take() {
                // when rolling over, the old segment is permanently finished. seal it.
                old_writer.seal()?;
            }
            self.active_writer = Some(self.storage.open_writer(target_segment_id)?);
        }

        let writer = self.active_writer.as_mut().unwrap();
        let op_hash = calculate_blob_hash(op_data);
        writer.write_entry(version, op_hash, op_data)?;

        Ok(WalAppendInfo { version, op_hash })
    }

    /// get the segment ID for the operation that would be placed at the previous operation version
    /// this is used for checkpoint calculations
    pub(crate) fn get_segment_id_for_previous_op(&self) -> u64 {
        self.last_written_op_version()
            .map_or(INITIAL_SEGMENT_ID, |v| self.segment_id_for_op_version(v.get()))
    }

    pub(crate) fn segment_id_for_op_version(&self, op_version: u64) -> u64 {
        assert_ne!(op_version, 0);
        // Op versions start at FIRST_OP_VERSION, but segment IDs start at 0
        // So op version 1-N maps to segment 0, N+1-2N maps to segment 1, etc.
        (op_version.saturating_sub(1)) / self.num_ops_per_wal.get()
    }

    fn has_written_ops(&self) -> bool {
        self.next_op_version > FIRST_OP_VERSION
    }

    fn has_new_ops_since(&self, checkpoint_version: NonZeroU64) -> bool {
        self.next_op_version > (checkpoint_version.saturating_add(1))
    }

    fn last_written_op_version(&self) -> Option<NonZeroU64> {
        NonZeroU64::new(self.next_op_version.get().saturating_sub(1))
    }
}


}
fn main(){}
