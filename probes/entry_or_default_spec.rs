#![feature(allocator_api)]
use vstd::prelude::*;
use vstd::std_specs::hash::*;
verus! {
pub type HashMap<K, V> = std::collections::HashMap<K, V, std::hash::RandomState>;
pub assume_specification<'a, K, V> [std::collections::hash_map::Entry::<'a, K, V>::or_default] (e: std::collections::hash_map::Entry<'a, K, V>) -> (r: &'a mut V)
    where V: std::default::Default
    ensures
        (match e.value() { Some(v) => *r == v, None => call_ensures(V::default, (), *r) }),
        e.final_value() == Some(*final(r)),
;
fn t(m: &mut HashMap<u64, u32>, k: u64)
    requires obeys_key_model::<u64>(), old(m)@.contains_key(k) ==> old(m)@[k] < 100,
{
    let ghost before = m@;
    let entry = m.entry(k).or_default();
    let was_zero = *entry == 0;
    *entry += 1;
    assert(m@.contains_key(k));
    assert(before.contains_key(k) ==> m@[k] == before[k] + 1);
    assert(!before.contains_key(k) ==> m@[k] == 1);
    assert(forall|j: u64| j != k ==> (m@.contains_key(j) <==> before.contains_key(j)));
}
}
fn main(){}
